"""C08 - template inheritance resolves every block to its most-derived override."""

from __future__ import annotations

from vf.cond import cond

from .common import DictLoader, Environment, LiquidError, concrete_int, drive, untraced

from liquid2 import CachingDictLoader  # noqa: E402
from liquid2.exceptions import RequiredBlockError, TemplateInheritanceError  # noqa: E402

EXPLANATION = (
    "Chain structure is a vector of solver choices (per template and block: omit / define / define+super / required; "
    "block y at top level or nested in x); sources are generated from the choices, loaded through real loaders, rendered "
    "sync and async, and compared with a 25-line reference resolver."
)
TECHNIQUE = (
    "symbolic execution with z3 (CrossHair) over choice variables (configurations, operation codes, schedule bits): the solver "
    "enumerates the bounded structure space and certifies that no choice is left; the real liquid2 code then runs natively on "
    "each chosen structure (nothing symbolic reaches it); counterexamples are replayed natively"
)
OUTSIDE = [
    "chains deeper than 3 (depth 4: quick with define/omit/super choices over one block name, thorough all 32^4) or with more than 2 block names",
    "block bodies other than literal tags + block.super + one nested block",
    "random larger chains (no sampling in this family)",
]

OMIT, DEF, SUPER, REQ = 0, 1, 2, 3


def _block(b: str, t: int, choice: int, inner: str = "") -> str:
    if choice == OMIT:
        return ""
    req = " required" if choice == REQ else ""
    sup = "{{ block.super }}" if choice == SUPER else ""
    return "{% block " + b + req + " %}" + f"{b}{t}(" + sup + inner + "){% endblock " + b + " %}"


def build_sources(cfg: list[tuple[int, int, bool]]) -> dict[str, str]:
    """cfg[t] = (choice for x, choice for y, y nested inside x); t = 0 is the leaf."""
    d = len(cfg)
    out = {}
    for t, (cx, cy, nest) in enumerate(cfg):
        nested = nest and cx != OMIT and cy != OMIT
        y = _block("y", t, cy)
        x = _block("x", t, cx, y if nested else "")
        body = f"<{t}>" + x + "|" + ("" if nested else y) + f"</{t}>"
        if t < d - 1:
            body = "{% extends 'T" + str(t + 1) + "' %}" + body
        out[f"T{t}"] = body
    return out


class _Required(Exception):
    pass


def reference(cfg: list[tuple[int, int, bool]]) -> str:
    """Root text with every block replaced by its most-derived override; super = next less derived."""
    d = len(cfg)
    choice = {"x": [c[0] for c in cfg], "y": [c[1] for c in cfg]}
    nested = [c[2] and c[0] != OMIT and c[1] != OMIT for c in cfg]
    defs = {b: [t for t in range(d) if choice[b][t] != OMIT] for b in ("x", "y")}

    def definition(b: str, k: int) -> str:
        t = defs[b][k]
        sup = ""
        if choice[b][t] == SUPER and k + 1 < len(defs[b]):
            sup = definition(b, k + 1)
        inner = resolve("y") if (b == "x" and nested[t]) else ""
        return f"{b}{t}(" + sup + inner + ")"

    def resolve(b: str) -> str:
        if not defs[b]:
            return ""
        t = defs[b][0]
        if choice[b][t] == REQ:
            raise _Required
        return definition(b, 0)

    root = d - 1
    cx, cy, _ = cfg[root]
    x = resolve("x") if cx != OMIT else ""
    y = resolve("y") if (cy != OMIT and not nested[root]) else ""
    return f"<{root}>" + x + "|" + y + f"</{root}>"


def _observe(env: Environment, is_async: bool):
    try:
        t = env.get_template("T0")
        return ("ok", drive(t.render_async()) if is_async else t.render())
    except RequiredBlockError:
        return ("required", None)
    except TemplateInheritanceError as e:
        return ("inherit", None)
    except LiquidError as e:
        return ("liquid", type(e).__name__)


def _chain_ok(cfg: list[tuple[int, int, bool]], caching: bool) -> bool:
    sources = build_sources(cfg)
    try:
        want = ("ok", reference(cfg))
    except _Required:
        want = ("required", None)
    loader = CachingDictLoader(sources) if caching else DictLoader(sources)
    env = Environment(loader=loader)
    for is_async in (False, True):
        if _observe(env, is_async) != want:
            return False
    # a second render of the same objects gives the same page (block stacks are per render)
    return _observe(env, False) == want


def _cfg(code: int) -> tuple[int, int, bool]:
    return (code % 4, (code // 4) % 4, code >= 16)


@cond(
    pre=["0 <= c1 < 32"],
    timeout=240,
    shard={"c0": list(range(32))},
    covers="chains of depth 1 and 2: output equals the reference resolution (most-derived override, block.super = next definition, nested block resolved by name, child text outside blocks discarded, required-not-overridden raises RequiredBlockError); sync == async; DictLoader and CachingDictLoader",
    bounds="2 block names; per template 4 x 4 choices x nesting bit; all 32 x 32 configurations x 2 loaders (solver-enumerated); depth 1 checked with the leaf alone",
    grid=lambda: [(c0, c1, k) for c0 in (5, 10, 26, 15) for c1 in (5, 9, 21, 30, 0) for k in (False, True)],
)
def s_chain2(c0: int, c1: int, caching: bool) -> bool:
    c1 = concrete_int(c1, 0, 31)
    caching = bool(caching)
    # every input is concrete from here on: the real code runs outside the tracer (the solver enumerates the structures)
    return untraced(lambda: _chain_ok([_cfg(c0)], caching) and _chain_ok([_cfg(c0), _cfg(c1)], caching))


@cond(
    pre=["0 <= c1 < 32", "0 <= c2 < 32"],
    timeout=600,
    timeout_thorough=1500,
    shard={"c0": list(range(32))},
    covers="chains of depth 3, all 32^3 configurations, as s_chain2",
    bounds="2 block names x 3 templates x (4 x 4 x 2) choices",
)
def s_chain3(c0: int, c1: int, c2: int) -> bool:
    cfg = [_cfg(c0), _cfg(concrete_int(c1, 0, 31)), _cfg(concrete_int(c2, 0, 31))]
    return untraced(lambda: _chain_ok(cfg, False))


@cond(
    pre=["0 <= a < 3", "0 <= b < 3", "0 <= c < 3", "0 <= e < 3"],
    timeout=300,
    shard={"a": [0, 1, 2]},
    covers="chains of depth 4 over one block name with omit/define/define+super per template",
    bounds="3^4 configurations",
)
def s_chain4(a: int, b: int, c: int, e: int) -> bool:
    cfg = [(a, 0, False), (concrete_int(b, 0, 2), 0, False), (concrete_int(c, 0, 2), 0, False), (concrete_int(e, 0, 2), 0, False)]
    return untraced(lambda: _chain_ok(cfg, False))


@cond(
    pre=["0 <= c1 < 32", "0 <= c2 < 32", "0 <= c3 < 32"],
    timeout=3000,
    tiers=("thorough",),
    shard={"c0": list(range(32))},
    covers="chains of depth 4 over both block names, all 32^4 configurations, as s_chain2",
    bounds="2 block names x 4 templates x (4 x 4 x 2) choices",
)
def s_chain4_full(c0: int, c1: int, c2: int, c3: int) -> bool:
    cfg = [_cfg(c0), _cfg(concrete_int(c1, 0, 31)), _cfg(concrete_int(c2, 0, 31)), _cfg(concrete_int(c3, 0, 31))]
    return untraced(lambda: _chain_ok(cfg, False))


ERRORS = [
    # (sources, expected outcome kind)
    ({"T0": "{% extends 'T1' %}{% extends 'T1' %}", "T1": "b"}, "inherit"),
    ({"T0": "{% extends 'T1' %}{% block x %}a{% endblock %}{% block x %}b{% endblock %}", "T1": "{% block x %}{% endblock %}"}, "inherit"),
    ({"T0": "{% extends 'T1' %}", "T1": "{% extends 'T0' %}"}, "inherit"),
    ({"T0": "{% extends 'T0' %}"}, "inherit"),
    ({"T0": "{% extends 'T1' %}", "T1": "{% extends 'T2' %}", "T2": "{% extends 'T1' %}"}, "inherit"),
    ({"T0": "{% extends 'T1' %}{% block x %}{% endblock y %}", "T1": "{% block x %}{% endblock %}"}, "inherit"),
    ({"T0": "{% extends 'T1' %}", "T1": "{% block x required %}{% endblock %}"}, "required"),
    ({"T0": "{% block x required %}{% endblock %}"}, "required"),
    ({"T0": "{% extends 'T1' %}{% block x %}{% block x %}{% endblock %}{% endblock %}", "T1": "{% block x %}{% endblock %}"}, "inherit"),
]


@cond(
    pre=["0 <= i < len(ERRORS)"],
    timeout=120,
    covers="two extends tags, duplicate block names (also nested), circular chains of length 1-3, mismatched endblock name, required block not overridden: each rejected with a template-inheritance error, sync and async, never RecursionError / a wrong page",
    bounds="9 error shapes x DictLoader/CachingDictLoader (enumerated by the solver)",
    grid=lambda: [(i, k) for i in range(len(ERRORS)) for k in (False, True)],
)
def s_errors(i: int, caching: bool) -> bool:
    sources, want = ERRORS[concrete_int(i, 0, len(ERRORS) - 1)]
    caching = bool(caching)

    def run() -> bool:
        env = Environment(loader=(CachingDictLoader if caching else DictLoader)(dict(sources)))
        for is_async in (False, True):
            try:
                got = _observe(env, is_async)[0]
            except Exception:  # noqa: BLE001
                return False
            if got != want:
                return False
        return True

    return untraced(run)


ENTERED = [
    "{% include 'T0' %}", "{% render 'T0' %}", "A{% include 'T0' %}B{% include 'T0' %}",
    "{% for i in (1..2) %}{% render 'T0' %}{% endfor %}",
]


@cond(
    pre=["0 <= c1 < 32", "0 <= via < len(ENTERED)"],
    timeout=300,
    shard={"c0": list(range(32))},
    covers="chains entered through include/render (twice, and inside a loop): every occurrence renders the reference page",
    bounds="depth 2; all 32 x 32 configurations x 4 entry shapes",
    grid=lambda: [(5, 9, v) for v in range(len(ENTERED))] + [(26, 21, 0), (7, 13, 2)],
)
def s_entered(c0: int, c1: int, via: int) -> bool:
    c1 = concrete_int(c1, 0, 31)
    via = concrete_int(via, 0, len(ENTERED) - 1)
    cfg = [_cfg(c0), _cfg(c1)]

    def run() -> bool:
        sources = build_sources(cfg)
        try:
            page = reference(cfg)
            want = ("ok", ENTERED[via].replace("{% include 'T0' %}", page).replace("{% render 'T0' %}", page))
            if via == 3:
                want = ("ok", page * 2)
        except _Required:
            want = ("required", None)
        sources["main"] = ENTERED[via]
        env = Environment(loader=DictLoader(sources))
        try:
            got = ("ok", env.get_template("main").render())
        except RequiredBlockError:
            got = ("required", None)
        except LiquidError:
            return False
        return got == want

    return untraced(run)


@cond(pre=["0 <= c1 < 32"], twin=True, timeout=60, covers="reachability twin: overrides do change the page")
def twin_chain(c1: int) -> bool:
    cfg = [_cfg(5), _cfg(concrete_int(c1, 0, 31))]
    env = Environment(loader=DictLoader(build_sources(cfg)))
    try:
        return env.get_template("T0").render() == env.get_template("T1").render()
    except LiquidError:
        return True


# ---- several leaves sharing parents through one (caching) loader --------------------------------
def _family_sources(cb: int, ca: int, cc: int) -> dict:
    """base (config cb) with two children A (config ca) and B (config cc), and a grandchild of A."""
    base = build_sources([(0, 0, False), _cfg(cb)])["T1"].replace("<1>", "<B>").replace("</1>", "</B>")
    def child(name: str, c: int, parent: str) -> str:
        body = build_sources([_cfg(c), (0, 0, False)])["T0"]
        return body.replace("{% extends 'T1' %}", "{% extends '" + parent + "' %}").replace("x0(", "x" + name + "(").replace("y0(", "y" + name + "(")
    return {"base": base, "A": child("A", ca, "base"), "B": child("B", cc, "base"), "AA": child("AA", 5, "A")}


LEAVES = ["base", "A", "B", "AA"]


def _family_view(env: Environment, leaf: str, is_async: bool):
    try:
        t = env.get_template(leaf)
        return ("ok", drive(t.render_async()) if is_async else t.render())
    except RequiredBlockError:
        return ("required", None)
    except TemplateInheritanceError:
        return ("inherit", None)
    except LiquidError as e:
        return ("liquid", type(e).__name__)


@cond(
    pre=["0 <= ca < 8", "0 <= cc < 4", "0 <= l2 < 4"],
    timeout=300,
    timeout_thorough=1200,
    shard={"cb": list(range(16)), "l1": [0, 1, 2, 3]},
    covers="templates of one family (base, two children, a grandchild) loaded through one CachingDictLoader: rendering leaf l1 and then leaf l2 gives, for l2, exactly what a fresh Environment gives (block stacks, `required` flags and parent links resolved for one chain never influence another chain or a later render of the parent itself), sync and async",
    bounds="all 16 base configurations without nesting, children 8 x 4 configurations, ordered pairs of 4 leaves, sync/async",
    grid=lambda: [(cb, ca, cc, l1, l2, a) for cb in (3, 15, 7) for ca in (1, 0, 6) for cc in (0, 3) for l1 in range(4) for l2 in range(4) for a in (False, True)],
)
def s_family(cb: int, ca: int, cc: int, l1: int, l2: int, is_async: bool) -> bool:
    ca, cc = concrete_int(ca, 0, 7), concrete_int(cc, 0, 3)
    l2 = concrete_int(l2, 0, 3)
    is_async = bool(is_async)

    def run() -> bool:
        sources = _family_sources(cb, ca, cc)
        shared = Environment(loader=CachingDictLoader(dict(sources)))
        fresh = Environment(loader=DictLoader(dict(sources)))
        _family_view(shared, LEAVES[l1], False)
        return _family_view(shared, LEAVES[l2], is_async) == _family_view(fresh, LEAVES[l2], is_async)

    return untraced(run)


# ---- chains entered from inside a block of another chain ------------------------------------------
OUTER = {
    "O0": "{% extends 'O1' %}{% block x %}[{% include 'P0' %}|{% include 'Q0' %}]{% endblock %}{% block y %}Y{{ block.super }}{% endblock %}",
    "O1": "<o>{% block x %}xd{% endblock %}|{% block y %}yd{% include 'Q0' %}{% endblock %}|{% block z %}zd{% endblock %}</o>",
}


@cond(
    pre=["0 <= ca < 32", "0 <= cq < 32"],
    timeout=300,
    shard={"cb": list(range(32))},
    covers="a page that extends a parent includes, from inside its block overrides and from a parent's default block, two other chains (P0 and Q0, both extending one shared parent B1 and using the same block names as the page): each included chain renders its own reference page, the page's blocks after the includes still resolve to the page's overrides (block.super included), and rendering the page twice gives the same text; sync and async, caching loader",
    bounds="shared parent configuration from 32 shards x two leaf configurations 32 x 32 (solver-enumerated); fixed enclosing page",
    grid=lambda: [(cb, ca, cq) for cb in (5, 9, 21, 15) for ca in (5, 0, 26, 10) for cq in (0, 5, 9)],
)
def s_nested_chains(cb: int, ca: int, cq: int) -> bool:
    ca, cq = concrete_int(ca, 0, 31), concrete_int(cq, 0, 31)

    def run() -> bool:
        cfg_p, cfg_q = [_cfg(ca), _cfg(cb)], [_cfg(cq), _cfg(cb)]
        sp, sq = build_sources(cfg_p), build_sources(cfg_q)
        sources = dict(OUTER)
        sources["P0"] = sp["T0"].replace("{% extends 'T1' %}", "{% extends 'B1' %}")
        sources["Q0"] = sq["T0"].replace("{% extends 'T1' %}", "{% extends 'B1' %}")
        sources["B1"] = sp["T1"]
        try:
            rp, rq = reference(cfg_p), reference(cfg_q)
            want = ("ok", "<o>[" + rp + "|" + rq + "]|Yyd" + rq + "|zd</o>")
        except _Required:
            want = ("required", None)
        for caching in (False, True):
            env = Environment(loader=(CachingDictLoader if caching else DictLoader)(dict(sources)))
            for is_async in (False, True, False):
                try:
                    t = env.get_template("O0")
                    got = ("ok", drive(t.render_async()) if is_async else t.render())
                except RequiredBlockError:
                    got = ("required", None)
                except LiquidError:
                    return False
                if got != want:
                    return False
        return True

    return untraced(run)
