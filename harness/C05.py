"""C05 - templates cannot reach Python attributes of context objects."""

from __future__ import annotations

import re

from collections.abc import Mapping, Sequence
from io import StringIO

from vf.cond import cond

from .common import DictLoader, LiquidError, concrete_int, drive, untraced

from liquid2 import RenderContext  # noqa: E402
from liquid2.builtin.tags.extends_tag import BlockDrop  # noqa: E402
from liquid2.builtin.tags.for_tag import ForLoop  # noqa: E402
from liquid2.shopify import Environment as ShopifyEnvironment  # noqa: E402
from liquid2.shopify.tags.tablerow_tag import TableRow  # noqa: E402

EXPLANATION = (
    "The quantifier is finite: path segments and string arguments range over the attribute names of the context objects "
    "(dir(obj), dunders included) plus the documented keys. A solver-chosen index selects the name, a second the program, "
    "a third the object shape; objects log every attribute read through __getattribute__."
)
OUTSIDE = [
    "%-interpolation of translated messages with attribute-like format strings (C level)",
    "strings that name no attribute (irrelevant to the property); objects other than the 4 shapes",
]

SECRET = "S3CR3T"
NUM_SECRET = 73317
LOG: list = []
PROTOCOL = {
    "__class__", "__getitem__", "__len__", "__iter__", "__contains__", "__str__", "__int__", "__float__", "__index__", "__liquid__",
    "__html__", "__getitem_async__", "__hash__", "__eq__", "__reversed__", "__bool__", "__repr__", "__format__",
    # documented drop hooks
    "force_liquid_default", "poke",
    # copy protocol: read by CrossHair's own argument copying when tracing (never natively); harmless to templates
    "__reduce__", "__reduce_ex__", "__getstate__", "__deepcopy__", "__copy__", "__getnewargs__", "__getnewargs_ex__", "__setstate__",
}


# Mixin methods of the abstract base classes: reading them is part of the Mapping / Sequence protocol for objects that
# ARE a Mapping / Sequence, and a Python attribute access for every other object.
ABC_PROTOCOL = {"MapDrop": {"items", "keys", "values", "get"}, "SeqDrop": {"index", "count"}}


def _allowed(name: str, shape: str = "") -> bool:
    return name in PROTOCOL or name in ABC_PROTOCOL.get(shape, ()) or name.startswith("__ch_") or name.startswith("_ch_")


class _Logged:
    def __getattribute__(self, name):  # type: ignore[no-untyped-def]
        LOG.append((type(self).__name__, name))
        return object.__getattribute__(self, name)


class Plain(_Logged):
    secret = SECRET
    token = SECRET

    def __init__(self) -> None:
        # values held only in the instance __dict__ (a string and a number: `sum` ignores non-numbers)
        object.__setattr__(self, "held", SECRET)
        object.__setattr__(self, "balance", NUM_SECRET)

    def leak(self):  # type: ignore[no-untyped-def]
        return SECRET

    @property
    def prop(self):  # type: ignore[no-untyped-def]
        return SECRET

    # look-alikes of the mapping / sequence interface on an object that is neither
    def items(self):  # type: ignore[no-untyped-def]
        return [(SECRET, SECRET)]

    def keys(self):  # type: ignore[no-untyped-def]
        return [SECRET]

    def values(self):  # type: ignore[no-untyped-def]
        return [SECRET]

    def get(self, key, default=None):  # type: ignore[no-untyped-def]
        return SECRET

    def index(self, *a):  # type: ignore[no-untyped-def]
        return SECRET

    def count(self, *a):  # type: ignore[no-untyped-def]
        return SECRET


class MapDrop(_Logged, Mapping):
    secret = SECRET

    def leak(self):  # type: ignore[no-untyped-def]
        return SECRET

    def __getitem__(self, key):  # type: ignore[no-untyped-def]
        if key == "title":
            return "T"
        raise KeyError(key)

    def __len__(self) -> int:
        return 1

    def __iter__(self):  # type: ignore[no-untyped-def]
        return iter(["title"])


class SeqDrop(_Logged, Sequence):
    secret = SECRET

    def leak(self):  # type: ignore[no-untyped-def]
        return SECRET

    def __getitem__(self, key):  # type: ignore[no-untyped-def]
        if isinstance(key, int) and not isinstance(key, bool) and -2 <= key < 2:
            return ["x", "y"][key]
        if isinstance(key, slice):
            return ["x", "y"][key]
        raise IndexError(key) if isinstance(key, int) else TypeError(key)

    def __len__(self) -> int:
        return 2


class CallDrop(_Logged):
    secret = SECRET

    def __call__(self, *a, **k):  # type: ignore[no-untyped-def]
        return SECRET

    def __liquid__(self):  # type: ignore[no-untyped-def]
        return "L"

    def __str__(self) -> str:
        return "CD"


SHAPES = [Plain, MapDrop, SeqDrop, CallDrop]
NAMES = sorted(set().union(*(set(dir(c())) for c in SHAPES)) | {"title", "first", "last", "size", "0", "secret", "leak", "prop", "__globals__", "__dict__", "__init__", "__class__", "mro", "__subclasses__", "__mro__", "__base__", "__code__", "__builtins__", "__import__", "{0.secret}", "%(secret)s", "secret.__class__", "__getattribute__", "items", "keys", "get"})
LOG.clear()

ENV = ShopifyEnvironment(loader=DictLoader({"p": "[{{ o[k] }}]", "secret": "no"}))
PROGRAMS = [
    "{{ o[k] }}|{{ o[k][k] }}|{{ o.first }}|{{ o.last }}|{{ o.size }}|{{ o }}",
    "{{ l | map: k | join: ',' }}|{{ l | where: k | size }}|{{ l | where: k, probe | size }}|{{ l | reject: k | size }}",
    "{{ l | sort: k | size }}|{{ l | sort_natural: k | size }}|{{ l | sort_numeric: k | size }}|{{ l | sum: k }}|{{ l | uniq: k | size }}|{{ l | compact: k | size }}",
    "{{ l | find: k }}|{{ l | has: k }}|{{ l | find_index: k }}|{{ l | find: k, probe }}|{{ l | map: i => i[k] | join: ',' }}|{{ l | where: i => i[k] | size }}",
    "{% for p in o %}{{ p }}{{ p[k] }}{% endfor %}|{% for p in l %}{{ p[k] }}{% endfor %}|{% for p in l %}{{ forloop[k] }}{% endfor %}|{% tablerow p in l %}{{ tablerowloop[k] }}{% endtablerow %}",
    "{% render 'p', o: o, k: k %}|{% include 'p' %}|{% with q: o %}{{ q[k] }}{% endwith %}|{% assign z = o[k] %}{{ z }}|{% capture c %}{{ o[k] }}{% endcapture %}{{ c }}",
    "{{ o | default: k }}|{{ o | size }}|{{ o | first }}|{{ o | last }}|{{ o | join: k }}|{{ o | json }}|{{ k | append: o }}|{{ o | slice: 0 }}|{{ o | concat: l | size }}|{{ o | reverse | size }}",
    "{% if o[k] %}T{% endif %}|{% if o == k %}E{% endif %}|{% if o contains k %}C{% endif %}|{% case o[k] %}{% when probe %}W{% endcase %}|{{ o[k] | upcase }}|{{ 'a' if o[k] else 'b' }}",
    "{% include k %}",
    "{{ k | escape: environment: o }}|{{ k | t: context: o }}|{{ k | strip_html: environment: o }}|{{ k | join: environment: o }}|{{ k | url_encode: environment: o, context: o }}",
    "{{ o | t: k }}|{{ k | t: o: o }}|{% translate o: o, k: k %}{{ o }}{{ k }}{% endtranslate %}|{{ o | date: k }}|{{ k | date: o }}",
    "{{ o | map: k | join: ',' }}|{{ o | where: k | size }}|{{ o | sort: k | size }}|{{ o | uniq: k | size }}|{{ o | sum: k }}|{{ o | find: k }}|{{ o | has: k }}|{{ o | compact: k | size }}",
    "{% for p in o %}{% for q in p %}{{ q[k] }}{% endfor %}{% endfor %}|{% tablerow p in o %}{{ p[k] }}{% endtablerow %}|{{ o | first | map: k }}|{% for p in o limit: 1 %}{{ forloop[k] }}{{ p }}{% endfor %}",
    "{{ o[k] | default: o }}|{{ o | default: k | append: o }}|{% assign z = o %}{{ z[k][k] }}|{% capture c %}{{ o }}{% endcapture %}{{ c[k] }}|{{ \"${o[k]}${k}\" }}|{% echo o[k] %}|{% cycle o[k], k %}",
]
TEMPLATES = [ENV.from_string(s) for s in PROGRAMS]
# Every `|`-separated probe of a program is also rendered on its own: in the concatenated program an earlier probe that
# raises (e.g. `sort: k` on objects without item access) would hide what a later probe (`sum: k`) does.
SEGMENTS = [[ENV.from_string(seg) for seg in re.split(r"(?<=[}])[|](?=[{])", s)] for s in PROGRAMS]
for _t in TEMPLATES + [x for segs in SEGMENTS for x in segs]:
    try:
        _t.render(o={"a": 1}, l=[{"a": 1}], k="a")
    except Exception:  # noqa: BLE001
        pass


def _render(t, data: dict, is_async: bool) -> str:
    try:
        return drive(t.render_async(**data)) if is_async else t.render(**data)
    except LiquidError as e:
        return "ERR:" + str(e)


@cond(
    pre=["0 <= ni < len(NAMES)", "0 <= shape < 4"],
    timeout=300,
    shard={"p": list(range(len(PROGRAMS)))},
    covers="for every attribute name of the context objects used as path segment, filter argument, lambda body key, loop/tablerow drop key or include name: the secret held in a Python attribute never appears in the output (nor in an error message), and the only attributes read by name are protocol hooks",
    bounds="14 programs, whole and split into their |-separated probes (engine-injected keyword names context/environment supplied by the template, paths, first/last/size, map/where/reject/sort*/sum/uniq/compact/find/has, lambdas, for/tablerow, render/include/with/assign/capture, misc filters, conditions, include by name, translate/date) x 4 object shapes x ~90 names (dir(obj) incl. dunders + documented keys), sync and async",
    stubs=("context objects log attribute reads through __getattribute__",),
    grid=lambda: [(p, NAMES.index(n), s, a) for p in range(len(PROGRAMS)) for n in ("secret", "leak", "prop", "__class__", "__dict__", "title", "first", "__init__") for s in range(4) for a in (False, True)],
)
def d_no_attr(p: int, ni: int, shape: int, is_async: bool) -> bool:
    k = NAMES[concrete_int(ni, 0, len(NAMES) - 1)]
    cls = SHAPES[concrete_int(shape, 0, 3)]
    is_async = bool(is_async)

    def run() -> bool:  # name, object shape and mode are concrete: the render runs outside the tracer
        for t in [TEMPLATES[p]] + (SEGMENTS[p] if len(SEGMENTS[p]) > 1 else []):
            o = cls()
            items = [cls(), cls()]
            LOG.clear()
            out = _render(t, {"o": o, "l": items, "k": k, "probe": SECRET}, is_async)
            if SECRET in out or str(NUM_SECRET) in out or str(2 * NUM_SECRET) in out:
                return False
            if not all(_allowed(name, shape_name) for shape_name, name in LOG):
                return False
        return True

    return untraced(run)


# ---- drops that use getattr-by-name internally ------------------------------------------------
FL_KEYS = {"name", "length", "index", "index0", "rindex", "rindex0", "first", "last", "parentloop"}
TR_KEYS = {"length", "index", "index0", "rindex", "rindex0", "first", "last", "col", "col0", "col_first", "col_last", "row"}
DROP_NAMES = sorted(set(dir(ForLoop("n", iter([1]), 1, None))) | set(dir(TableRow("n", iter([1]), 1, 1))) | FL_KEYS | TR_KEYS | {"super", "it", "item", "_index", "step", "ncols", "_row", "buffer", "context", "parent", "token"})


@cond(
    pre=["0 <= ni < len(DROP_NAMES)"],
    timeout=120,
    covers="ForLoop / TableRow / BlockDrop item access: only the documented keys resolve; every other attribute name of the drop (it, step, _index, context, buffer, dunders ...) is a KeyError",
    bounds="all names in dir(drop) + documented keys (solver-chosen index)",
    grid=lambda: [(i,) for i in range(len(DROP_NAMES))],
)
def k_drops(ni: int) -> bool:
    k = DROP_NAMES[concrete_int(ni, 0, len(DROP_NAMES) - 1)]
    fl = ForLoop("n", iter([1, 2]), 2, None)
    next(fl)
    tr = TableRow("n", iter([1, 2]), 2, 2)
    next(tr)
    for drop, keys in ((fl, FL_KEYS), (tr, TR_KEYS)):
        try:
            drop[k]
            ok = k in keys
        except KeyError:
            ok = k not in keys
        except Exception:  # noqa: BLE001
            ok = False
        if not ok:
            return False
    t = TEMPLATES[0]
    bd = BlockDrop(token=t.nodes[0].token, context=RenderContext(t), buffer=StringIO(), name="b", parent=None)
    try:
        bd[k]
        return k == "super"
    except KeyError:
        return k != "super"
    except Exception:  # noqa: BLE001
        return False


@cond(pre=["0 <= shape < 4"], twin=True, timeout=60, covers="reachability twin: documented keys do resolve")
def twin_no_attr(shape: int) -> bool:
    return "T" not in _render(TEMPLATES[0], {"o": MapDrop(), "l": [], "k": "title"}, False)
