"""C07 - render/macro scopes are isolated and block scopes do not leak."""

from __future__ import annotations

from io import StringIO
from typing import List

from vf.cond import cond

from .common import DictLoader, Environment, LiquidError, concrete_int, drive, untraced

from liquid2 import RenderContext  # noqa: E402
from liquid2.exceptions import DisabledTagError  # noqa: E402

EXPLANATION = (
    "Isolation as non-interference: the region written by `render`/`call` must equal a stand-alone render of the partial/macro "
    "body with only globals + arguments, and the caller's later output must equal the caller without the partial - for all data. "
    "Block scopes: the outer variable printed after a block equals the one printed before, also after break/continue/errors."
)
OUTSIDE = [
    "generator finalisation timing on interpreters without reference counting (LambdaExpression.map abandoned early)",
    "callers/partials outside the 5 x 5 pool; data other than small printed ints and short lists",
]

# ---- pools over the shared names a, b, c, k, z --------------------------------------------
CALLERS = [
    ("{% assign a = 'L' %}{% capture b %}C{% endcapture %}{% increment c %}", "<{{ a }}{{ b }}{{ c }}{{ k }}{{ z }}>"),
    ("{% for a in (1..2) %}{% assign z = a %}{% endfor %}{% decrement c %}", "<{{ a }}{{ z }}{{ c }}{{ k }}>"),
    ("{% with a: 5, b: 6 %}", "<{{ a }}{{ b }}{{ z }}>{% endwith %}<{{ a }}{{ b }}>"),
    ("{% liquid\n assign a = x\n assign k = 9\n%}{% cycle 'p', 'q' %}", "<{{ a }}{{ k }}{{ z }}{% cycle 'p', 'q' %}>"),
    # the invocation sits inside the caller's loops (second iteration of the inner one): loop state must not be reachable
    ("{% assign a = 'L' %}{% for b in (1..3) %}{% for z in (4..5) %}{% if forloop.last and forloop.parentloop.first %}", "{% endif %}<{{ z }}{{ k }}{{ forloop.index }}>{% endfor %}{% endfor %}<{{ a }}{{ z }}{{ b }}>"),
]
BODIES = [
    "({{ a }}{{ b }}{{ c }}{{ k }}{{ g }})",
    "({{ k }}{% assign a = 'P' %}{% assign z = 'Z' %}{% capture b %}Q{% endcapture %}{% increment c %}{{ a }}{{ b }}{{ c }}{{ z }})",
    "({% for a in (7..8) %}{{ a }}{{ forloop.parentloop.index }}{% endfor %}{{ a }}{{ forloop.index }}{% decrement c %})",
    "({% cycle 'p', 'q' %}{{ k | plus: g }}{% if a %}A{% endif %}{% unless z %}U{% endunless %})",
    "({{ forloop.index }}{{ forloop.length }}{% for a in (7..8) %}{{ forloop.parentloop.index }}{{ forloop.parentloop.length }}{{ forloop.parentloop.parentloop.index }}{{ forloop.length }}{% endfor %})",
]

ENV_PLAIN = Environment()
# every template is parsed at import time: parsing under CrossHair's tracer takes
# solver decisions of its own (hash() of expression tuples in the cycle tag) and a
# lazily filled cache makes iterations non-deterministic
_CACHE: dict = {}


def _env_for(body: str) -> Environment:
    e = _CACHE.get(body)
    if e is None:
        e = _CACHE[body] = Environment(loader=DictLoader({"p": body}))
    return e


def _tpl(env: Environment, src: str):
    key = (id(env), src)
    t = _CACHE.get(key)
    if t is None:
        t = _CACHE[key] = env.from_string(src)
    return t


def _warm() -> None:
    for pre, post in CALLERS:
        _tpl(ENV_PLAIN, pre + "[]" + post)
        for body, mbody in zip(BODIES, MACRO_BODIES):
            env = _env_for(body)
            _tpl(env, pre + "[{% render 'p', k: x %}]" + post)
            env.get_template("p")
            _tpl(ENV_PLAIN, body)
            _tpl(ENV_PLAIN, mbody)
            _tpl(ENV_PLAIN, "{% macro m, k %}" + mbody + "{% endmacro %}" + pre + "[{% call m, x %}]" + post)


MACRO_BODIES = list(BODIES)
_warm()


@cond(
    pre=["0 <= ci < 5", "0 <= bi < 5", "0 <= x <= 3", "0 <= g <= 3"],
    timeout=300,
    shard={"ci": [0, 1, 2, 3, 4], "bi": [0, 1, 2, 3, 4]},
    covers="{% render %}: the partial's region equals a stand-alone render of the partial with globals + arguments only (it cannot see the caller's assigned/captured/counted/loop-bound names; render() and render_async()), and the caller's later output equals the caller without the render tag (nothing the partial binds is visible)",
    bounds="5 caller shapes x 5 partial bodies over the shared names a,b,c,k,z (assign, capture, increment/decrement, for, with, cycle, liquid, invocation inside nested caller loops with bodies reading forloop/parentloop); x, g printed ints 0..3",
    grid=lambda: [(c, b, 1, 2, a) for c in range(5) for b in range(5) for a in (False, True)],
)
def d_render_iso(ci: int, bi: int, x: int, g: int, is_async: bool) -> bool:
    pre, post = CALLERS[ci]
    body = BODIES[bi]
    env = _env_for(body)
    try:
        wt = _tpl(env, pre + "[{% render 'p', k: x %}]" + post)
        whole = drive(wt.render_async(x=x, g=g)) if is_async else wt.render(x=x, g=g)
        alone = _tpl(ENV_PLAIN, body).render(k=x, g=g, x=x)
        without = _tpl(ENV_PLAIN, pre + "[]" + post).render(x=x, g=g)
    except LiquidError:
        return False
    i, j = whole.find("["), whole.find("]")
    if i < 0 or j < 0:
        return False
    region = whole[i + 1 : j]
    rest = whole[: i + 1] + whole[j:]
    return region == alone and rest == without


@cond(
    pre=["0 <= ci < 5", "0 <= bi < 5", "0 <= x <= 3", "0 <= g <= 3"],
    timeout=300,
    shard={"ci": [0, 1, 2, 3, 4], "bi": [0, 1, 2, 3, 4]},
    covers="{% macro %}/{% call %}: the macro body sees only globals and its arguments; nothing it assigns, captures or counts is visible to the caller afterwards; render() and render_async()",
    bounds="5 caller shapes x 5 macro bodies (incl. invocation inside nested caller loops); x, g printed ints 0..3",
    grid=lambda: [(c, b, 1, 2, a) for c in range(5) for b in range(5) for a in (False, True)],
)
def d_macro_iso(ci: int, bi: int, x: int, g: int, is_async: bool) -> bool:
    pre, post = CALLERS[ci]
    body = MACRO_BODIES[bi]
    src = "{% macro m, k %}" + body + "{% endmacro %}" + pre + "[{% call m, x %}]" + post
    try:
        wt = _tpl(ENV_PLAIN, src)
        whole = drive(wt.render_async(x=x, g=g)) if is_async else wt.render(x=x, g=g)
        alone = _tpl(ENV_PLAIN, body).render(k=x, g=g, x=x, args=[], kwargs={})
        without = _tpl(ENV_PLAIN, pre + "[]" + post).render(x=x, g=g)
    except LiquidError:
        return False
    i, j = whole.find("["), whole.find("]")
    if i < 0 or j < 0:
        return False
    return whole[i + 1 : j] == alone and whole[: i + 1] + whole[j:] == without


DISABLED = [
    ("{% render 'p' %}", {"p": "{% include 'q' %}", "q": "Q"}),
    ("{% render 'p' %}", {"p": "{% if x %}{% include 'q' %}{% endif %}", "q": "Q"}),
    ("{% macro m %}{% include 'q' %}{% endmacro %}{% call m %}", {"q": "Q"}),
    ("{% render 'p' %}", {"p": "{% for i in (1..2) %}{% include 'q' %}{% endfor %}", "q": "Q"}),
    ("{% render 'p' %}", {"p": "{% render 'r' %}", "r": "{% include 'q' %}", "q": "Q"}),
]


DISABLED_T = [Environment(loader=DictLoader(parts)).from_string(src) for src, parts in DISABLED]
for _t in DISABLED_T:
    try:
        _t.render(x=True)  # load partials now
    except Exception:  # noqa: BLE001
        pass


@cond(
    pre=["0 <= i < len(DISABLED)"],
    timeout=120,
    covers="`include` inside render / call (also nested in if/for and one render deeper) is refused with DisabledTagError whenever it would execute",
    bounds="5 program shapes; x bool decides whether the include is reached",
    grid=lambda: [(i, x) for i in range(len(DISABLED)) for x in (False, True)],
)
def d_disabled(i: int, x: bool) -> bool:
    i = concrete_int(i, 0, len(DISABLED) - 1)
    t = DISABLED_T[i]
    try:
        out = t.render(x=x)
    except DisabledTagError:
        return True
    except LiquidError:
        return False
    return i == 1 and not x and "Q" not in out


# ---- block scopes -------------------------------------------------------------------------
BLOCKS = [
    "{% for v in a %}{% if v == b %}{% break %}{% endif %}{{ v }}{% endfor %}",
    "{% for v in a %}{% if v == b %}{% continue %}{% endif %}{{ v }}{% endfor %}",
    "{% with v: b %}{{ v }}{% endwith %}",
    "{% include 'p', v: b %}",
    "{% include 'p' with b as v %}",
    "{% render 'p', v: b %}",
    "{% render 'p' for a as v %}",
    "{% macro m, v %}{{ v }}{% endmacro %}{% call m, b %}",
    "{{ a | map: v => v | join: ',' }}{{ a | where: v => v == b | first }}",
    "{{ a | find: v => v == b }}{{ a | has: v => v == b }}{{ a | find_index: v => v == b }}",
    "{% translate v: b %}T{{ v }}{% endtranslate %}",
    "{% for v in a %}{% for v in a %}{{ v }}{% endfor %}{% if v == b %}{% break %}{% endif %}{% endfor %}",
    "{% for v in a limit: 1 %}{% with v: 9 %}{% break %}{% endwith %}{% endfor %}",
    "{% tablerow v in a %}{{ v }}{% endtablerow %}",
]

from liquid2.shopify import Environment as ShopifyEnvironment  # noqa: E402

ENV_BLOCKS = ShopifyEnvironment(loader=DictLoader({"p": "({{ v }})"}))
BLOCK_T = [ENV_BLOCKS.from_string("{% assign v = x %}<{{ v }}>" + s + "<{{ v }}>{{ forloop }}{{ tablerowloop }}") for s in BLOCKS]


@cond(
    pre=["0 <= x <= 3", "0 <= b <= 3", "len(a) <= 2", "all(0 <= i <= 3 for i in a)"],
    timeout=300,
    shard={"i": list(range(len(BLOCKS)))},
    covers="names bound by for, tablerow, with, include/render arguments, macro parameters, lambda parameters and translate arguments are gone after the construct; the outer variable of the same name is unchanged - also when the block is left through break or continue (at a data-dependent iteration) or a lambda is abandoned early",
    bounds="14 constructs; outer v = x in 0..3; b in 0..3 selects the break/continue/match position; list len <= 2 over 0..3",
    grid=lambda: [(i, 1, 2, [1, 2]) for i in range(len(BLOCKS))] + [(i, 3, 1, [1, 1]) for i in range(len(BLOCKS))],
)
def d_block_scope(i: int, x: int, b: int, a: List[int]) -> bool:
    try:
        out = BLOCK_T[i].render(x=x, b=b, a=a)
    except LiquidError:
        return False
    want = f"<{x}>"
    return out.startswith(want) and out.endswith(want)


ERR_T = [
    ENV_BLOCKS.from_string("{% assign v = x %}{% for v in a %}{% with w: v %}{{ w | divided_by: d }}{% endwith %}{% endfor %}"),
    ENV_BLOCKS.from_string("{% assign v = x %}{% for v in a %}{% include 'p', v: v %}{{ a | map: q => q | first | divided_by: d }}{% endfor %}"),
    ENV_BLOCKS.from_string("{% assign v = x %}{% for v in a %}{% capture c %}{{ v | modulo: d }}{% endcapture %}{% endfor %}"),
]


@cond(
    pre=["0 <= x <= 3", "-1 <= d <= 1", "len(a) <= 2", "all(0 <= i <= 3 for i in a)"],
    timeout=200,
    shard={"i": [0, 1, 2]},
    covers="when an error is raised inside nested block scopes at a data-dependent point, the render context is left with its base scope depth, an empty loop stack and its own template; the outer variable is intact",
    bounds="3 programs (for > with, for > include + lambda, for > capture); divisor d in -1..1 (0 raises); list len <= 2",
    grid=lambda: [(i, 2, d, [1, 2]) for i in range(3) for d in (0, 1)],
)
def d_scope_after_error(i: int, x: int, d: int, a: List[int]) -> bool:
    t = ERR_T[i]
    ctx = RenderContext(t, global_data={"x": x, "d": d, "a": a})
    base = ctx.scope.size()
    raised = False
    try:
        t.render_with_context(ctx, StringIO())
    except LiquidError:
        raised = True
    except Exception:  # noqa: BLE001
        return False
    if raised != (d == 0 and len(a) > 0):
        return False
    return ctx.scope.size() == base and ctx.loops == [] and ctx.template is t and ctx.locals.get("v") == x


TWIN_T = ENV_BLOCKS.from_string("{% assign v = x %}{% with v: 9 %}{{ v }}{% endwith %}")
for _t in BLOCK_T + ERR_T:
    try:
        _t.render(x=1, b=1, a=[1], d=1)  # load partials now
    except Exception:  # noqa: BLE001
        pass


@cond(pre=["0 <= x <= 3"], twin=True, timeout=60, covers="reachability twin: inside the block the name really is rebound")
def twin_block(x: int) -> bool:
    out = TWIN_T.render(x=x)
    return out == str(x)


# ---- the variable bound by `render ... with/for` reaches the partial in every calling situation -------
BIND_PARTS = {"x": "[{{ x }}{{ v }}{{ k }}]"}
BIND_ENV = Environment(loader=DictLoader(dict(BIND_PARTS)))
BIND_G_ENV = Environment(loader=DictLoader(dict(BIND_PARTS)), globals={"eg": 1})


@cond(
    pre=["True"],
    timeout=120,
    covers="`render 'x' with e` / `for e` (with and without `as v`, with and without keyword arguments) binds the value in the partial whether or not the caller was given any data or globals at all (no render arguments, no template globals, no environment globals), sync and async",
    bounds="2 binding kinds x alias x keyword argument x caller data present/absent x environment globals present/absent x sync/async (solver-chosen structure, concrete execution)",
    grid=lambda: [(f, a, k, d, g, s) for f in (False, True) for a in (False, True) for k in (False, True) for d in (False, True) for g in (False, True) for s in (False, True)],
)
def s_render_binding(loop: bool, alias: bool, kw: bool, data: bool, eglobals: bool, is_async: bool) -> bool:
    loop, alias, kw, data, eglobals, is_async = (bool(b) for b in (loop, alias, kw, data, eglobals, is_async))

    def run() -> bool:
        src = "{% assign y = 5 %}{% render 'x' " + ("for (1..2)" if loop else "with y") + (" as v" if alias else "") + (", k: 7" if kw else "") + " %}"
        env = BIND_G_ENV if eglobals else BIND_ENV
        t = env.from_string(src)
        args = {"unrelated": 1} if data else {}
        try:
            out = drive(t.render_async(**args)) if is_async else t.render(**args)
        except LiquidError:
            return False
        vals = ["1", "2"] if loop else ["5"]
        k = "7" if kw else ""
        return out == "".join("[" + v + k + "]" for v in vals)

    return untraced(run)
