"""C14 - caching loaders are transparent."""

from __future__ import annotations

from typing import List

from vf.cond import cond

from .common import DictLoader, Environment as _Environment, LiquidError, concrete_int, drive, untraced

from liquid2 import CachingDictLoader  # noqa: E402
from liquid2.builtin.loaders.mixins import CachingLoaderMixin  # noqa: E402
from liquid2.exceptions import TemplateNotFoundError  # noqa: E402
from liquid2.loader import TemplateSource  # noqa: E402
from liquid2.utils import LRUCache  # noqa: E402

class Environment(_Environment):
    """Parsing has no symbolic input here (sources are concrete per path): run it outside the tracer."""

    def parse(self, source):  # type: ignore[no-untyped-def]
        return untraced(lambda: _Environment.parse(self, source))


EXPLANATION = (
    "Histories of loader operations are vectors of solver-chosen operation codes executed on the real caching "
    "loader and, step by step, on a 20-line reference (non-caching loader + explicit LRU list); the solver "
    "certifies that no history in the bound distinguishes them."
)
TECHNIQUE = (
    "symbolic execution with z3 (CrossHair) over choice variables (configurations, operation codes, schedule bits): the solver "
    "enumerates the bounded structure space and certifies that no choice is left; the real liquid2 code then runs natively on "
    "each chosen structure (nothing symbolic reaches it); counterexamples are replayed natively"
)
OUTSIDE = [
    "histories longer than 3 (thorough 4) steps; more than 2 names x 2 namespaces; capacity 3 only in the thorough tier and in k_lru",
    "thread-safe cache variant under real threads; the executor hop of get_source_async (runs inline); file systems whose mtime granularity hides an edit (the harness sets mtime := version)",
    "CachingChoiceLoader with more than two delegates",
]


# --------------------------------------------------------------------------------------------
# K-C14-lru
# --------------------------------------------------------------------------------------------
@cond(
    pre=["len(ops) <= L", "all(0 <= o < 9 for o in ops)"],
    consts={"L": 3},
    consts_thorough={"L": 4},
    timeout=240,
    timeout_thorough=1500,
    shard={"cap": [1, 2, 3]},
    covers="LRUCache vs a reference list: membership, values, size <= capacity, least-recently-used victim, iteration order, for every sequence of get/set/del",
    bounds="operation sequences of length <= 3 (thorough 4) over keys {0,1,2} x {get,set,del}; capacity 1..3",
    grid=lambda: [(c, [3, 4, 0, 5], 4) for c in (1, 2, 3)] + [(2, [3, 4, 3, 5], 4), (1, [6, 3, 6], 4)],
)
def k_lru(cap: int, ops: List[int], L: int) -> bool:
    cache: LRUCache = LRUCache(capacity=cap)
    ref: list = []  # [(key, value)] least recently used first
    tick = 0
    for o in ops:
        o = concrete_int(o, 0, 8)
        key, kind = o % 3, o // 3
        tick += 1
        if kind == 0:  # get
            got = cache.get(key, "miss")
            hit = [kv for kv in ref if kv[0] == key]
            if hit:
                ref.remove(hit[0])
                ref.append(hit[0])
                if got != hit[0][1]:
                    return False
            elif got != "miss":
                return False
        elif kind == 1:  # set
            cache[key] = tick
            hit = [kv for kv in ref if kv[0] == key]
            if hit:
                ref.remove(hit[0])
            elif len(ref) >= cap:
                ref.pop(0)
            ref.append((key, tick))
        else:  # del
            hit = [kv for kv in ref if kv[0] == key]
            try:
                del cache[key]
                if not hit:
                    return False
            except KeyError:
                if hit:
                    return False
            if hit:
                ref.remove(hit[0])
        if len(cache) != len(ref) or len(cache) > cap:
            return False
        if list(cache) != [k for k, _ in reversed(ref)]:
            return False
        if [k in cache for k in range(3)] != [any(k == r[0] for r in ref) for k in range(3)]:
            return False
    return True


# --------------------------------------------------------------------------------------------
# S-C14-hist
# --------------------------------------------------------------------------------------------
NAMES = ["a", "b"]
NSS = [None, "n"]


class _Versioned(DictLoader):
    """A namespaced in-memory loader with freshness information (the non-caching counterpart)."""

    def get_source(self, env, template_name, *, context=None, **kwargs):  # type: ignore[no-untyped-def]
        ns = kwargs.get("ns")
        full = f"{ns}/{template_name}" if ns else template_name
        try:
            source = self.templates[full]
        except KeyError as err:
            raise TemplateNotFoundError(template_name) from err
        if self.fresh:
            return TemplateSource(source, template_name, lambda: self.templates.get(full) == source)
        return TemplateSource(source, template_name, None)


class _CachingVersioned(CachingLoaderMixin, _Versioned):
    def __init__(self, templates, *, auto_reload, capacity, fresh):  # type: ignore[no-untyped-def]
        CachingLoaderMixin.__init__(self, auto_reload=auto_reload, namespace_key="ns", capacity=capacity)
        _Versioned.__init__(self, templates)
        self.fresh = fresh


def _src(name: str, ns, version: int) -> str:
    return f"V{version}:{name}:{ns or ''}:" + "{{ u }}{{ eg }}"


def _initial() -> dict:
    return {(f"{ns}/{n}" if ns else n): _src(n, ns, 0) for n in NAMES for ns in NSS}


# operation code: 0..15 load (bit0 async, bit1 name, bit2 ns, bit3 globals), 16/17 modify a/b (all namespaces), 18/19 delete a/b
N_OPS = 20


# ---- real file system backend (CachingFileSystemLoader / CachingChoiceLoader over FileSystemLoader) ----
import atexit  # noqa: E402
import os  # noqa: E402
import shutil  # noqa: E402
import tempfile  # noqa: E402

from liquid2 import CachingChoiceLoader, CachingFileSystemLoader, FileSystemLoader  # noqa: E402

_FS_ROOT = tempfile.mkdtemp(prefix="vf_c14_")
os.mkdir(os.path.join(_FS_ROOT, "n"))
atexit.register(shutil.rmtree, _FS_ROOT, True)
_MTIME0 = 1_600_000_000


class _NsFileSystemLoader(CachingFileSystemLoader):
    """The documented multi-user arrangement: templates of namespace `ns` live in the folder `ns/`."""

    def get_source(self, env, template_name, *, context=None, **kwargs):  # type: ignore[no-untyped-def]
        ns = kwargs.get("ns")
        return super().get_source(env, f"{ns}/{template_name}" if ns else template_name, context=context, **kwargs)

    async def get_source_async(self, env, template_name, *, context=None, **kwargs):  # type: ignore[no-untyped-def]
        ns = kwargs.get("ns")
        return await super().get_source_async(env, f"{ns}/{template_name}" if ns else template_name, context=context, **kwargs)


class _NsPlain(FileSystemLoader):
    def get_source(self, env, template_name, *, context=None, **kwargs):  # type: ignore[no-untyped-def]
        ns = kwargs.get("ns")
        return super().get_source(env, f"{ns}/{template_name}" if ns else template_name, context=context, **kwargs)

    async def get_source_async(self, env, template_name, *, context=None, **kwargs):  # type: ignore[no-untyped-def]
        ns = kwargs.get("ns")
        return await super().get_source_async(env, f"{ns}/{template_name}" if ns else template_name, context=context, **kwargs)


def _fs_loader(backend: str, cap: int, auto_reload: bool):  # type: ignore[no-untyped-def]
    if backend == "fs":
        return _NsFileSystemLoader(_FS_ROOT, auto_reload=auto_reload, namespace_key="ns", capacity=cap)
    return CachingChoiceLoader([DictLoader({"zz": "unused"}), _NsPlain(_FS_ROOT)], auto_reload=auto_reload, namespace_key="ns", capacity=cap)


def _fs_write(full: str, source: str, version: int) -> None:
    def go() -> None:
        path = os.path.join(_FS_ROOT, full)
        with open(path, "w", encoding="utf-8") as fd:
            fd.write(source)
        os.utime(path, (_MTIME0 + version, _MTIME0 + version))  # the modification time is the version: no clock involved

    untraced(go)


def _fs_delete(full: str) -> None:
    try:
        os.unlink(os.path.join(_FS_ROOT, full))
    except FileNotFoundError:
        pass


def _run_history(ops: list[int], cap: int, auto_reload: bool, fresh: bool, backend: str = "mem") -> bool:
    sources = _initial()
    versions = {k: 0 for k in sources}
    def build():  # object construction has no symbolic input
        if backend == "mem":
            ld = _CachingVersioned(sources, auto_reload=auto_reload, capacity=cap, fresh=fresh)
        else:
            ld = _fs_loader(backend, cap, auto_reload)
            for k in list(sources):
                _fs_write(k, sources[k], 0)
        return ld, Environment(loader=ld, globals={"eg": "E"})  # environment globals must reach cached templates too

    loader, env = untraced(build)
    lru: list = []  # [(cache_key, source at load)] least recently used first
    for op in ops:
        if op >= 16:
            name = NAMES[op % 2]
            for ns in NSS:
                full = f"{ns}/{name}" if ns else name
                if op < 18:
                    versions[full] += 1
                    sources[full] = _src(name, ns, versions[full])
                    if backend != "mem":
                        _fs_write(full, sources[full], versions[full])
                else:
                    sources.pop(full, None)
                    if backend != "mem":
                        _fs_delete(full)
            continue
        is_async, name, ns, with_g = bool(op & 1), NAMES[(op >> 1) & 1], NSS[(op >> 2) & 1], bool(op & 8)
        full = f"{ns}/{name}" if ns else name
        key = full
        # ---- reference ----
        hit = [kv for kv in lru if kv[0] == key]
        want_src = None
        if hit and not (auto_reload and fresh and sources.get(full) != hit[0][1]):
            lru.remove(hit[0])
            lru.append(hit[0])
            want_src = hit[0][1]
        else:
            cur = sources.get(full)
            if cur is not None:
                if hit:
                    lru.remove(hit[0])
                elif len(lru) >= cap:
                    lru.pop(0)
                lru.append((key, cur))
                want_src = cur
            elif hit:
                # stale entry whose source vanished: the lookup touched it, the reload failed
                lru.remove(hit[0])
                lru.append(hit[0])
        g = {"u": 7} if with_g else None
        want = None if want_src is None else want_src.replace("{{ u }}", "7" if with_g else "").replace("{{ eg }}", "E")
        # ---- real loader ----
        try:
            if is_async:
                t = drive(env.get_template_async(name, globals=g, ns=ns)) if ns else drive(env.get_template_async(name, globals=g))
            else:
                t = env.get_template(name, globals=g, ns=ns) if ns else env.get_template(name, globals=g)
            got = t.render()
        except TemplateNotFoundError:
            got = None
        except LiquidError:
            return False
        if got != want:
            return False
        if len(loader.cache) > cap:
            return False
        if sorted(loader.cache.keys()) != sorted(k for k, _ in lru):
            return False
    return True


@cond(
    pre=["0 <= o1 < N_OPS", "0 <= o2 < 16"],
    timeout=240,
    tiers=("quick",),
    shard={"cap": [1, 2], "auto_reload": [False, True], "fresh": [False, True]},
    covers="every history of 2 operations: each load-and-render equals the reference (uncached loader, or the retained entry when no reload applies), cache size <= capacity, cached keys == reference LRU keys; no globals or namespace leakage",
    bounds="2 names x 2 namespaces; ops = {sync/async load with/without globals, modify, delete}; capacity 1..2; auto_reload on/off; loader with/without freshness information",
    grid=lambda: [(8, 0, 2, True, True), (5, 2, 2, True, False), (0, 2, 1, False, False), (16, 0, 1, True, True), (18, 0, 2, True, True)],
)
def s_hist2(o1: int, o2: int, cap: int, auto_reload: bool, fresh: bool) -> bool:
    ops = [concrete_int(o1, 0, N_OPS - 1), concrete_int(o2, 0, 15)]
    return untraced(lambda: _run_history(ops, cap, auto_reload, fresh))  # every input is concrete from here on


@cond(
    pre=["0 <= o1 < N_OPS", "0 <= o2 < N_OPS", "0 <= o3 < 16"],
    timeout=600,
    shard={"cap": [1, 2], "auto_reload": [False, True], "fresh": [False, True]},
    covers="every history of 3 operations (LRU victim observable), as s_hist2",
    bounds="20 x 20 x 16 histories x capacity 1..2 x auto_reload x freshness",
)
def s_hist3(o1: int, o2: int, o3: int, cap: int, auto_reload: bool, fresh: bool) -> bool:
    ops = [concrete_int(o1, 0, N_OPS - 1), concrete_int(o2, 0, N_OPS - 1), concrete_int(o3, 0, 15)]
    return untraced(lambda: _run_history(ops, cap, auto_reload, fresh))


@cond(
    pre=["0 <= o2 < N_OPS", "0 <= o3 < N_OPS", "0 <= o4 < 16"],
    timeout=1800,
    tiers=("thorough",),
    shard={"o1": list(range(N_OPS)), "cap": [1, 2, 3], "auto_reload": [False, True], "fresh": [False, True]},
    covers="every history of 4 operations with capacity up to 3, as s_hist2",
    bounds="20^3 x 16 histories x capacity 1..3 x auto_reload x freshness",
)
def s_hist4(o1: int, o2: int, o3: int, o4: int, cap: int, auto_reload: bool, fresh: bool) -> bool:
    ops = [o1, concrete_int(o2, 0, N_OPS - 1), concrete_int(o3, 0, N_OPS - 1), concrete_int(o4, 0, 15)]
    return untraced(lambda: _run_history(ops, cap, auto_reload, fresh))


@cond(
    pre=["0 <= o1 < 16", "16 <= e < N_OPS", "0 <= o3 < 16"],
    timeout=400,
    shard={"backend": ["fs", "choice"], "cap": [1, 2], "auto_reload": [False, True]},
    covers="the stock CachingFileSystemLoader and CachingChoiceLoader (over a FileSystemLoader) on a real directory: load, edit (modify or delete either file), load - every combination of sync/async, name, namespace folder and globals for the two loads - agrees step by step with the reference; sync and async freshness checks (uptodate / uptodate coroutine) are interchangeable on one cache entry; a deleted file is a TemplateNotFoundError exactly when the uncached loader raises it",
    bounds="16 x 4 x 16 histories x capacity 1..2 x auto_reload x 2 loader classes; 2 names x 2 namespace folders; modification time := version counter (os.utime), no wall clock; thread-pool hop of get_source_async runs inline",
    stubs=("asyncio.get_running_loop := inline stub loop (see common.STUB_LOOP)",),
    grid=lambda: [(a, e, c, b, 2, True) for a in (0, 1, 5) for e in (16, 18) for c in (0, 1, 4) for b in ("fs", "choice")] + [(1, 16, 1, "fs", 1, True), (0, 18, 1, "fs", 2, False), (5, 17, 2, "choice", 1, False)],
)
def s_fs_edit(o1: int, e: int, o3: int, backend: str, cap: int, auto_reload: bool) -> bool:
    ops = [concrete_int(o1, 0, 15), concrete_int(e, 16, N_OPS - 1), concrete_int(o3, 0, 15)]
    return untraced(lambda: _run_history(ops, cap, auto_reload, True, backend))


@cond(
    pre=["0 <= o2 < N_OPS", "0 <= o3 < 16"],
    timeout=900,
    tiers=("thorough",),
    shard={"o1": list(range(N_OPS)), "backend": ["fs", "choice"], "cap": [1, 2], "auto_reload": [False, True]},
    covers="as s_fs_edit for every history of 3 operations (LRU victim and eviction-then-reload observable on the real file-system loaders)",
    bounds="20 x 20 x 16 histories x capacity 1..2 x auto_reload x {CachingFileSystemLoader, CachingChoiceLoader}",
    stubs=("asyncio.get_running_loop := inline stub loop (see common.STUB_LOOP)",),
)
def s_fs_hist3(o1: int, o2: int, o3: int, backend: str, cap: int, auto_reload: bool) -> bool:
    ops = [o1, concrete_int(o2, 0, N_OPS - 1), concrete_int(o3, 0, 15)]
    return untraced(lambda: _run_history(ops, cap, auto_reload, True, backend))


@cond(pre=["0 <= o1 < N_OPS"], twin=True, timeout=60, covers="reachability twin: a cached entry is served after its source changed (auto_reload off)")
def twin_hist(o1: int) -> bool:
    sources = _initial()
    loader = _CachingVersioned(sources, auto_reload=False, capacity=2, fresh=True)
    env = Environment(loader=loader)
    first = env.get_template("a").render()
    if concrete_int(o1, 0, N_OPS - 1) == 16:
        sources["a"] = _src("a", None, 1)
    return env.get_template("a").render() == sources["a"].replace("{{ u }}", "").replace("{{ eg }}", "")


# --------------------------------------------------------------------------------------------
# stock CachingDictLoader: globals rebinding and sync/async key agreement
# --------------------------------------------------------------------------------------------
@cond(
    pre=["0 <= g1 <= 2", "0 <= g2 <= 2"],
    timeout=120,
    covers="CachingDictLoader (stock class): two consecutive loads of one name with independent globals (absent or a symbolic value) each render with their own globals and with the environment globals, sync and async, and one cache entry results",
    bounds="globals absent / {'u': 1} / {'u': 2} per call; 4 sync/async combinations",
    grid=lambda: [(a, b, x, y) for a in range(3) for b in range(3) for x in (False, True) for y in (False, True)],
)
def s_stock_globals(g1: int, g2: int, a1: bool, a2: bool) -> bool:
    loader = CachingDictLoader({"t": "[{{ u }}]{{ eg }}"}, namespace_key="ns")
    env = Environment(loader=loader, globals={"eg": "E"})
    for g, is_async in ((concrete_int(g1, 0, 2), a1), (concrete_int(g2, 0, 2), a2)):
        gl = {"u": g} if g else None
        t = drive(env.get_template_async("t", globals=gl, ns="n")) if is_async else env.get_template("t", globals=gl, ns="n")
        if t.render() != (f"[{g}]E" if g else "[]E"):
            return False
    return list(loader.cache.keys()) == ["n/t"]
