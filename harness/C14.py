"""C14 - caching loaders are transparent."""

from __future__ import annotations

from typing import List

from vf.cond import cond

from .common import DictLoader, Environment, LiquidError, concrete_int, drive

from liquid2 import CachingDictLoader  # noqa: E402
from liquid2.builtin.loaders.mixins import CachingLoaderMixin  # noqa: E402
from liquid2.exceptions import TemplateNotFoundError  # noqa: E402
from liquid2.loader import TemplateSource  # noqa: E402
from liquid2.utils import LRUCache  # noqa: E402

EXPLANATION = (
    "Histories of loader operations are vectors of solver-chosen operation codes executed on the real caching "
    "loader and, step by step, on a 20-line reference (non-caching loader + explicit LRU list); the solver "
    "certifies that no history in the bound distinguishes them."
)
OUTSIDE = [
    "histories longer than 2 (thorough 3) steps; more than 2 names x 2 namespaces",
    "CachingFileSystemLoader's mtime plumbing (real file system); thread-safe cache variant under real threads",
    "CachingChoiceLoader is exercised through the same mixin with a single delegate only",
]


# --------------------------------------------------------------------------------------------
# K-C14-lru
# --------------------------------------------------------------------------------------------
@cond(
    pre=["len(ops) <= L", "all(0 <= o < 9 for o in ops)"],
    consts={"L": 3},
    consts_thorough={"L": 4},
    timeout=240,
    timeout_thorough=1500,
    shard={"cap": [1, 2, 3]},
    covers="LRUCache vs a reference list: membership, values, size <= capacity, least-recently-used victim, iteration order, for every sequence of get/set/del",
    bounds="operation sequences of length <= 3 (thorough 4) over keys {0,1,2} x {get,set,del}; capacity 1..3",
    grid=lambda: [(c, [3, 4, 0, 5], 4) for c in (1, 2, 3)] + [(2, [3, 4, 3, 5], 4), (1, [6, 3, 6], 4)],
)
def k_lru(cap: int, ops: List[int], L: int) -> bool:
    cache: LRUCache = LRUCache(capacity=cap)
    ref: list = []  # [(key, value)] least recently used first
    tick = 0
    for o in ops:
        o = concrete_int(o, 0, 8)
        key, kind = o % 3, o // 3
        tick += 1
        if kind == 0:  # get
            got = cache.get(key, "miss")
            hit = [kv for kv in ref if kv[0] == key]
            if hit:
                ref.remove(hit[0])
                ref.append(hit[0])
                if got != hit[0][1]:
                    return False
            elif got != "miss":
                return False
        elif kind == 1:  # set
            cache[key] = tick
            hit = [kv for kv in ref if kv[0] == key]
            if hit:
                ref.remove(hit[0])
            elif len(ref) >= cap:
                ref.pop(0)
            ref.append((key, tick))
        else:  # del
            hit = [kv for kv in ref if kv[0] == key]
            try:
                del cache[key]
                if not hit:
                    return False
            except KeyError:
                if hit:
                    return False
            if hit:
                ref.remove(hit[0])
        if len(cache) != len(ref) or len(cache) > cap:
            return False
        if list(cache) != [k for k, _ in reversed(ref)]:
            return False
        if [k in cache for k in range(3)] != [any(k == r[0] for r in ref) for k in range(3)]:
            return False
    return True


# --------------------------------------------------------------------------------------------
# S-C14-hist
# --------------------------------------------------------------------------------------------
NAMES = ["a", "b"]
NSS = [None, "n"]


class _Versioned(DictLoader):
    """A namespaced in-memory loader with freshness information (the non-caching counterpart)."""

    def get_source(self, env, template_name, *, context=None, **kwargs):  # type: ignore[no-untyped-def]
        ns = kwargs.get("ns")
        full = f"{ns}/{template_name}" if ns else template_name
        try:
            source = self.templates[full]
        except KeyError as err:
            raise TemplateNotFoundError(template_name) from err
        if self.fresh:
            return TemplateSource(source, template_name, lambda: self.templates.get(full) == source)
        return TemplateSource(source, template_name, None)


class _CachingVersioned(CachingLoaderMixin, _Versioned):
    def __init__(self, templates, *, auto_reload, capacity, fresh):  # type: ignore[no-untyped-def]
        CachingLoaderMixin.__init__(self, auto_reload=auto_reload, namespace_key="ns", capacity=capacity)
        _Versioned.__init__(self, templates)
        self.fresh = fresh


def _src(name: str, ns, version: int) -> str:
    return f"V{version}:{name}:{ns or ''}:" + "{{ u }}"


def _initial() -> dict:
    return {(f"{ns}/{n}" if ns else n): _src(n, ns, 0) for n in NAMES for ns in NSS}


# operation code: 0..15 load (bit0 async, bit1 name, bit2 ns, bit3 globals), 16/17 modify a/b (all namespaces), 18/19 delete a/b
N_OPS = 20


def _run_history(ops: list[int], cap: int, auto_reload: bool, fresh: bool) -> bool:
    sources = _initial()
    versions = {k: 0 for k in sources}
    loader = _CachingVersioned(sources, auto_reload=auto_reload, capacity=cap, fresh=fresh)
    env = Environment(loader=loader)
    lru: list = []  # [(cache_key, source at load)] least recently used first
    for op in ops:
        if op >= 16:
            name = NAMES[op % 2]
            for ns in NSS:
                full = f"{ns}/{name}" if ns else name
                if op < 18:
                    versions[full] += 1
                    sources[full] = _src(name, ns, versions[full])
                else:
                    sources.pop(full, None)
            continue
        is_async, name, ns, with_g = bool(op & 1), NAMES[(op >> 1) & 1], NSS[(op >> 2) & 1], bool(op & 8)
        full = f"{ns}/{name}" if ns else name
        key = full
        # ---- reference ----
        hit = [kv for kv in lru if kv[0] == key]
        want_src = None
        if hit and not (auto_reload and fresh and sources.get(full) != hit[0][1]):
            lru.remove(hit[0])
            lru.append(hit[0])
            want_src = hit[0][1]
        else:
            cur = sources.get(full)
            if cur is not None:
                if hit:
                    lru.remove(hit[0])
                elif len(lru) >= cap:
                    lru.pop(0)
                lru.append((key, cur))
                want_src = cur
            elif hit:
                # stale entry whose source vanished: the lookup touched it, the reload failed
                lru.remove(hit[0])
                lru.append(hit[0])
        g = {"u": 7} if with_g else None
        want = None if want_src is None else want_src.replace("{{ u }}", "7" if with_g else "")
        # ---- real loader ----
        try:
            if is_async:
                t = drive(env.get_template_async(name, globals=g, ns=ns)) if ns else drive(env.get_template_async(name, globals=g))
            else:
                t = env.get_template(name, globals=g, ns=ns) if ns else env.get_template(name, globals=g)
            got = t.render()
        except TemplateNotFoundError:
            got = None
        except LiquidError:
            return False
        if got != want:
            return False
        if len(loader.cache) > cap:
            return False
        if sorted(loader.cache.keys()) != sorted(k for k, _ in lru):
            return False
    return True


@cond(
    pre=["0 <= o1 < N_OPS", "0 <= o2 < 16"],
    timeout=240,
    tiers=("quick",),
    shard={"cap": [1, 2], "auto_reload": [False, True], "fresh": [False, True]},
    covers="every history of 2 operations: each load-and-render equals the reference (uncached loader, or the retained entry when no reload applies), cache size <= capacity, cached keys == reference LRU keys; no globals or namespace leakage",
    bounds="2 names x 2 namespaces; ops = {sync/async load with/without globals, modify, delete}; capacity 1..2; auto_reload on/off; loader with/without freshness information",
    grid=lambda: [(8, 0, 2, True, True), (5, 2, 2, True, False), (0, 2, 1, False, False), (16, 0, 1, True, True), (18, 0, 2, True, True)],
)
def s_hist2(o1: int, o2: int, cap: int, auto_reload: bool, fresh: bool) -> bool:
    return _run_history([concrete_int(o1, 0, N_OPS - 1), concrete_int(o2, 0, 15)], cap, auto_reload, fresh)


@cond(
    pre=["0 <= o2 < N_OPS", "0 <= o3 < 16"],
    timeout=900,
    tiers=("thorough",),
    shard={"o1": list(range(N_OPS)), "cap": [1, 2], "auto_reload": [False, True], "fresh": [False, True]},
    covers="every history of 3 operations (LRU victim observable), as s_hist2",
    bounds="20 x 20 x 16 histories x capacity 1..2 x auto_reload x freshness",
)
def s_hist3(o1: int, o2: int, o3: int, cap: int, auto_reload: bool, fresh: bool) -> bool:
    return _run_history([o1, concrete_int(o2, 0, N_OPS - 1), concrete_int(o3, 0, 15)], cap, auto_reload, fresh)


@cond(pre=["0 <= o1 < N_OPS"], twin=True, timeout=60, covers="reachability twin: a cached entry is served after its source changed (auto_reload off)")
def twin_hist(o1: int) -> bool:
    sources = _initial()
    loader = _CachingVersioned(sources, auto_reload=False, capacity=2, fresh=True)
    env = Environment(loader=loader)
    first = env.get_template("a").render()
    if concrete_int(o1, 0, N_OPS - 1) == 16:
        sources["a"] = _src("a", None, 1)
    return env.get_template("a").render() == sources["a"].replace("{{ u }}", "")


# --------------------------------------------------------------------------------------------
# stock CachingDictLoader: globals rebinding and sync/async key agreement
# --------------------------------------------------------------------------------------------
@cond(
    pre=["0 <= g1 <= 2", "0 <= g2 <= 2"],
    timeout=120,
    covers="CachingDictLoader (stock class): two consecutive loads of one name with independent globals (absent or a symbolic value) each render with their own globals, sync and async, and one cache entry results",
    bounds="globals absent / {'u': 1} / {'u': 2} per call; 4 sync/async combinations",
    grid=lambda: [(a, b, x, y) for a in range(3) for b in range(3) for x in (False, True) for y in (False, True)],
)
def s_stock_globals(g1: int, g2: int, a1: bool, a2: bool) -> bool:
    loader = CachingDictLoader({"t": "[{{ u }}]"}, namespace_key="ns")
    env = Environment(loader=loader)
    for g, is_async in ((concrete_int(g1, 0, 2), a1), (concrete_int(g2, 0, 2), a2)):
        gl = {"u": g} if g else None
        t = drive(env.get_template_async("t", globals=gl, ns="n")) if is_async else env.get_template("t", globals=gl, ns="n")
        if t.render() != (f"[{g}]" if g else "[]"):
            return False
    return list(loader.cache.keys()) == ["n/t"]
