"""C02 - parsing and rendering are total over the LiquidError error model."""

from __future__ import annotations

from typing import List, Optional, Union

from vf.cond import HarnessAbort, cond

from .common import (
    STUB_STRICT_INIT,
    DictLoader,
    Environment,
    LiquidError,
    VStrict,
    concrete_int,
    drive,
    in_alpha,
    outcome,
    seed,
    untraced,
)

from liquid2.exceptions import LiquidSyntaxError, LiquidTypeError  # noqa: E402
from liquid2.lexer import Lexer  # noqa: E402
from liquid2.token import ErrorToken, PathToken, TagToken, Token, TokenType, WhitespaceControl  # noqa: E402
from liquid2.unescape import unescape  # noqa: E402

EXPLANATION = (
    "Data, limits, offsets, error positions and the characters after an opening quote are solver variables; "
    "the assertion is that only LiquidError subclasses escape and that every raised error can be rendered to text."
)
OUTSIDE = [
    "whole template source as a solver variable (CrossHair's regex model is unsound on this lexer: patterns I/T and a concrete corpus are used instead)",
    "wall-clock bounds; Python recursion limits; babel-based optional filters (currency/datetime/decimal/unit)",
    "float operands other than the finite special set {0.0,-0.0,0.5,2^53,1e308,inf,-inf,nan}",
    "strings longer than the stated bounds",
]

from liquid2.shopify import Environment as ShopifyEnvironment  # noqa: E402

ENV = ShopifyEnvironment()

# --------------------------------------------------------------------------------------
# K-C02-errctx: every error position the lexer/parser can produce is renderable
# --------------------------------------------------------------------------------------
CTX_ALPHA = "a\n\r"


def _render_error(e: LiquidError) -> bool:
    try:
        s = str(e)
        d = e.detailed_message()
        c = e.context()
    except Exception:  # noqa: BLE001
        return False
    return isinstance(s, str) and isinstance(d, str) and (c is None or len(c) == 5)


def _mk_token(kind: int, text: str, index: int, vlen: int):
    value = text[index : index + vlen]
    if kind == 0:
        return Token(type_=TokenType.WORD, value=value, index=index, source=text)
    if kind == 1:
        return ErrorToken(type_=TokenType.ERROR, index=index, value=value, markup_start=0, markup_stop=index, source=text, message="m")
    if kind == 2:
        return TagToken(type_=TokenType.TAG, start=index, stop=index + vlen, wc=(WhitespaceControl.DEFAULT, WhitespaceControl.DEFAULT), name="t", expression=[], source=text)
    if kind == 3:
        return Token(type_=TokenType.SINGLE_QUOTE_STRING, value=value, index=index, source=text)
    return PathToken(type_=TokenType.PATH, path=["a"], start=index, stop=index + vlen, source=text)


@cond(
    pre=["len(text) <= 3", "in_alpha(text, CTX_ALPHA)", "0 <= index <= len(text)", "0 <= vlen <= 1"],
    timeout=200,
    shard={"named": [False, True], "kind": [0, 1, 2, 3, 4]},
    covers="str(e), detailed_message(), context() never raise for any error position 0..len(source) and any token kind; the reported line, column and source line are those of the position (LF, CR and CRLF line breaks)",
    bounds="source over {a, LF, CR} len <= 3; index 0..len(source) (end of input included); 5 token kinds; value length 0..1",
    grid=lambda: [(t, i, v, k, n) for t in ("", "a", "a\n", "\n\na", "a\r\n") for i in range(len(t) + 1) for v in (0, 1) for k in range(5) for n in (False, True)],
)
def k_errctx(text: str, index: int, vlen: int, kind: int, named: bool) -> bool:
    tok = _mk_token(kind, text, index, vlen)
    e = LiquidSyntaxError("msg", token=tok, template_name="t.liquid" if named else None)
    if not _render_error(e):
        return False
    # C17 clause: line and column describe the position (CR, LF and CRLF are each one line break)
    ctx = e.context()
    if ctx is None or not text:
        return True
    line, col, start, i = 1, 0, 0, 0
    idx = min(index, len(text) - 1) if index >= len(text) else index
    while i < idx:
        if text[i] == "\r" and i + 1 < len(text) and text[i + 1] == "\n":
            if i + 1 >= idx:
                break  # the position is the LF of a CRLF: still on this line
            i += 2
            line, start = line + 1, i
        elif text[i] in "\r\n":
            i += 1
            line, start = line + 1, i
        else:
            i += 1
    if index >= len(text):
        return ctx[0] >= 1  # end of input: any in-range description is accepted
    end = start
    while end < len(text) and text[end] not in "\r\n":
        end += 1
    return ctx[0] == line and ctx[1] == index - start and ctx[3] == text[start:end]


@cond(
    pre=["len(text) <= 2", "in_alpha(text, CTX_ALPHA)", "0 <= index <= len(text)"],
    twin=True,
    timeout=60,
    covers="reachability twin for k_errctx: a context tuple is actually produced",
)
def twin_errctx(text: str, index: int) -> bool:
    e = LiquidSyntaxError("msg", token=_mk_token(0, text, index, 1))
    try:
        return e.context() is None
    except Exception:  # noqa: BLE001
        return True


# --------------------------------------------------------------------------------------
# K-C02-scan: character level scanners after an opening quote (no regex involved)
# --------------------------------------------------------------------------------------
SCAN_ALPHA = "'\"\\una0$"


def _scan(src: str, quote: str, which: int) -> tuple[str, object]:
    lx = Lexer(ENV, quote + src)
    lx.pos = 1
    lx.start = 1
    lx.markup_start = 0
    try:
        if which == 0:
            lx.accept_string(quote=quote)
        else:
            lx.accept_template_string(quote=quote, expression=[])
    except LiquidSyntaxError as e:
        return ("liquid", e)
    except Exception as e:  # noqa: BLE001
        return ("escape", type(e).__name__)
    return ("ok", lx)


@cond(
    pre=["len(src) <= N", "in_alpha(src, SCAN_ALPHA)"],
    consts={"N": 3},
    consts_thorough={"N": 4},
    timeout=300,
    timeout_thorough=1800,
    shard={"dq": [False, True], "which": [0, 1]},
    covers="accept_string / accept_template_string on any continuation of an opening quote (incl. end of input): return or LiquidSyntaxError whose message and position are renderable and inside the source",
    bounds="text after the quote over {' \" \\ u n a 0 $} len <= 3 (thorough 4); both quote kinds; no `${` (needs the token regex)",
    grid=lambda: [(s, d, w, 9) for s in ("", "a", "a'", 'a"', "\\", "\\n", "\\x"[:1] + "a", "\\u00", "$a", "a\\'") for d in (False, True) for w in (0, 1)],
)
def k_scan(src: str, dq: bool, which: int, N: int) -> bool:
    quote = '"' if dq else "'"
    kind, obj = _scan(src, quote, which)
    if kind == "escape":
        return False
    if kind == "liquid":
        e = obj
        tok = e.token
        if tok is None:
            return False
        if not _render_error(e):
            return False
        # C17 clause: the reported position lies inside the source
        return 0 <= tok.start < len(quote + src)
    lx = obj
    return 1 <= lx.pos <= len(quote + src)


@cond(
    pre=["len(src) <= 2", "in_alpha(src, SCAN_ALPHA)"],
    twin=True,
    timeout=60,
    covers="reachability twin for k_scan: both the error and the success exit are reachable",
)
def twin_scan(src: str) -> bool:
    kind, _ = _scan(src, "'", 1)
    return kind == "liquid"


# --------------------------------------------------------------------------------------
# K-C02-unescape: unescape() on everything the lexer can hand it
# --------------------------------------------------------------------------------------
UNESC_ALPHA = "\\un\"'d8D0a\x07"


def lexer_accepts(v: str, quote: str) -> bool:
    """The string scanners' own acceptance rule for the text between the quotes."""
    i = 0
    n = len(v)
    while i < n:
        c = v[i]
        if c == "\\":
            if i + 1 >= n:
                return False
            nxt = v[i + 1]
            if not (nxt in Lexer.ESCAPES or nxt == quote):
                return False
            i += 2
            continue
        if c == quote:
            return False
        i += 1
    return True


@cond(
    pre=["len(v) <= N", "in_alpha(v, UNESC_ALPHA)", "lexer_accepts(v, QUOTE)"],
    consts={"N": 4, "QUOTE": '"'},
    consts_thorough={"N": 6, "QUOTE": '"'},
    timeout=300,
    timeout_thorough=1800,
    covers="unescape(v) returns or raises LiquidSyntaxError for every v the string scanners accept (double quoted)",
    bounds="v over {\\ u n \" ' d 8 D 0 a U+0007} len <= 4 (thorough 6), restricted by the lexer's own acceptance predicate (read from Lexer.ESCAPES at run time)",
    grid=lambda: [(s, 9, '"') for s in ("", "a", "\\n", "\\u00e9"[:6], "\\ud83d\\ude00", "\\ud83d", "\\udc00", "\\u00", "\x07", "\\\"", "\\\\")],
)
def k_unescape_dq(v: str, N: int, QUOTE: str) -> bool:
    tok = Token(type_=TokenType.DOUBLE_QUOTE_STRING, value=v, index=1, source='"' + v + '"')
    try:
        unescape(v, token=tok)
    except LiquidSyntaxError as e:
        return _render_error(e)
    except Exception:  # noqa: BLE001
        return False
    return True


@cond(
    pre=["len(v) <= N", "in_alpha(v, UNESC_ALPHA)", "lexer_accepts(v, QUOTE)"],
    consts={"N": 4, "QUOTE": "'"},
    consts_thorough={"N": 6, "QUOTE": "'"},
    timeout=300,
    timeout_thorough=1800,
    covers="unescape(v.replace(\\', ')) returns or raises LiquidSyntaxError for every v the string scanners accept (single quoted)",
    bounds="as k_unescape_dq, single quote",
    grid=lambda: [(s, 9, "'") for s in ("", "a", "\\'", "\\\\\\'", "\\u00e9"[:6], "\\n\\'")],
)
def k_unescape_sq(v: str, N: int, QUOTE: str) -> bool:
    tok = Token(type_=TokenType.SINGLE_QUOTE_STRING, value=v, index=1, source="'" + v + "'")
    try:
        unescape(v.replace("\\'", "'"), token=tok)
    except LiquidSyntaxError as e:
        return _render_error(e)
    except Exception:  # noqa: BLE001
        return False
    return True


# --------------------------------------------------------------------------------------
# D-C02-filters: every registered filter on type-confused operands
# --------------------------------------------------------------------------------------
FLOATS = [0.0, -0.0, 0.5, 9007199254740992.0, 1e308, float("inf"), float("-inf"), float("nan")]
STR_ALPHA = "1-.e %s(é="
NUM_ALPHA = "1-.e "
BIG = 1 << 62

_BABEL = {"currency", "money", "money_with_currency", "money_without_currency", "money_without_trailing_zeros", "datetime", "decimal", "unit"}
# `date` hands symbolic values to dateutil/strftime (C) and crashes CrossHair's datetime model: concrete grid only
_EXCLUDED = _BABEL | {"date"}
# base64 encoders: CrossHair's binascii model does not terminate on symbolic bytes (measured: no verdict in 240 s)
_EXCLUDED = _EXCLUDED | {"base64_encode", "base64_url_safe_encode"}
ALL_FILTERS = sorted(n for n in ENV.filters if n not in _EXCLUDED)
EVERY_FILTER = sorted(ENV.filters)
MATH = ["abs", "at_least", "at_most", "ceil", "floor", "round", "plus", "minus", "times", "divided_by", "modulo"]
CORE = ["sum", "slice", "truncate", "truncatewords", "t", "sort", "join", "first", "compact", "base64_decode", "split", "default"]
OTHERS = [f for f in ALL_FILTERS if f not in MATH]


def quick_others() -> list[str]:
    rest = [f for f in OTHERS if f not in CORE]
    k = seed() % max(1, len(rest))
    rot = rest[k:] + rest[:k]
    return CORE + rot[:4]


_TPL: dict[tuple[str, int], object] = {}


def _filter_template(name: str, arity: int):
    key = (name, arity)
    if key not in _TPL:
        args = ["", ": w", ": w, u"][arity]
        try:
            _TPL[key] = ENV.from_string("{% assign r = v | " + name + args + " %}").render
        except LiquidError as e:  # argument validation at parse time is a legitimate LiquidError
            ok = _render_error(e)
            _TPL[key] = (lambda **d: None) if ok else None
    return _TPL[key]


for _n in sorted(ENV.filters):
    for _a in (0, 1, 2):
        _filter_template(_n, _a)  # parse at import, never under the tracer


def _only_liquid(fn, **data) -> bool:
    if fn is None:
        return False
    try:
        fn(**data)
    except LiquidError as e:
        return _render_error(e)
    except Exception:  # noqa: BLE001
        return False
    return True


def _scale(x, big: bool):
    """Small ints stay small (so that str() has few digit counts); `big` moves them beyond 2^62 / sys.maxsize."""
    if big and isinstance(x, int) and not isinstance(x, bool):
        return x * BIG
    return x


Num = Union[int, bool, None, str]
Val = Union[int, bool, None, str, List[int]]


@cond(
    pre=["not isinstance(v, int) or -3 <= v <= 3", "not isinstance(v, str) or (len(v) <= 2 and in_alpha(v, NUM_ALPHA))"],
    timeout=60,
    shard={"name": MATH},
    path_timeout=15,
    covers="math filters without argument: {% assign r = v | f %} raises only LiquidError",
    bounds="v: int -3..3, optionally x 2^62 (math.ceil/round are C and realize ints, so ints are a finite set) | bool | None | str over {1 - . e space} len <= 2",
    grid=lambda: [(n, v, b) for n in MATH for v in (0, -1, 3, True, None, "1e", "-.", " 1") for b in (False, True)],
)
def d_math0(name: str, v: Num, bv: bool) -> bool:
    return _only_liquid(_filter_template(name, 0), v=_scale(v, bv))


@cond(
    pre=[
        "not isinstance(v, int) or -3 <= v <= 3",
        "not isinstance(w, int) or -3 <= w <= 3",
        "not isinstance(v, str) or (len(v) <= N and in_alpha(v, NUM_ALPHA))",
        "not isinstance(w, str) or (len(w) <= 1 and in_alpha(w, NUM_ALPHA))",
    ],
    consts={"N": 1},
    consts_thorough={"N": 2},
    timeout=150,
    timeout_thorough=400,
    shard={"name": MATH},
    path_timeout=15,
    covers="math filters with one argument: {% assign r = v | f: w %} raises only LiquidError for small and huge ints, bools, nil and numeric-looking strings on either side",
    bounds="v, w: int -3..3 optionally x 2^62 | bool | None | str over {1 - . e space} (v: len <= 1, thorough 2; w: len <= 1)",
    grid=lambda: [(n, v, w, b, b, 2) for n in MATH for v in (0, -1, 3, True, None, "1e", "-.", " 1") for w in (0, -3, None, False, "e1", "1.") for b in (False, True)],
)
def d_math1(name: str, v: Num, w: Num, bv: bool, bw: bool, N: int) -> bool:
    return _only_liquid(_filter_template(name, 1), v=_scale(v, bv), w=_scale(w, bw))


@cond(
    pre=[
        "not isinstance(v, int) or -3 <= v <= 3",
        "not isinstance(v, str) or (len(v) <= N and in_alpha(v, STR_ALPHA))",
        "not isinstance(v, list) or (len(v) <= 2 and all(-2 <= i <= 2 for i in v))",
    ],
    consts={"N": 1},
    consts_thorough={"N": 2},
    timeout=60,
    timeout_thorough=200,
    shard={"name": quick_others()},
    shard_thorough={"name": OTHERS},
    path_timeout=15,
    covers="string/array/misc filters without argument: {% assign r = v | f %} raises only LiquidError for type-confused v",
    bounds="v: int -3..3 (optionally x 2^62) | bool | None | str over {1 - . e space % s ( e-acute =} len <= 2 | list[int] len <= 2; quick: 12 core + 4 seeded filters, thorough: all non-babel",
    grid=lambda: [(n, v, b, 2) for n in OTHERS for v in (0, 7, True, None, "%s", "é=", [1, 2], []) for b in (False, True)],
)
def d_filter0(name: str, v: Val, big: bool, N: int) -> bool:
    return _only_liquid(_filter_template(name, 0), v=_scale(v, big))


@cond(
    pre=[
        "not isinstance(v, int) or -3 <= v <= 3",
        "not isinstance(w, int) or -3 <= w <= 3",
        "not isinstance(v, str) or (len(v) <= N and in_alpha(v, STR_ALPHA))",
        "not isinstance(w, str) or (len(w) <= 1 and in_alpha(w, STR_ALPHA))",
        "not isinstance(v, list) or (len(v) <= N and all(-2 <= i <= 2 for i in v))",
    ],
    consts={"N": 1},
    consts_thorough={"N": 2},
    timeout=150,
    timeout_thorough=400,
    shard={"name": quick_others(), "arity": [1]},
    shard_thorough={"name": OTHERS, "arity": [1, 2]},
    path_timeout=15,
    covers="string/array/misc filters with arguments: {% assign r = v | f: w[, w] %} raises only LiquidError for type-confused v, w",
    bounds="v: int -3..3 (optionally x 2^62) | bool | None | str len <= 1 (thorough 2) | list[int] len <= 1 (thorough 2); w: the same without list, str len <= 1",
    grid=lambda: [(n, a, v, w, b, 2) for n in OTHERS for a in (1, 2) for v in (0, 7, True, None, "%s", "é=", [1, 2], []) for w in (0, -1, None, "%", True) for b in (False, True)],
)
def d_filter(name: str, arity: int, v: Val, w: Num, big: bool, N: int) -> bool:
    return _only_liquid(_filter_template(name, arity), v=_scale(v, big), w=_scale(w, big), u=w)


FLOAT_FILTERS = MATH + ["slice", "truncate", "truncatewords", "sum", "join", "base64_decode"]


@cond(
    pre=["0 <= fv < 8", "0 <= fw < 8"],
    timeout=60,
    timeout_thorough=120,
    shard={"name": FLOAT_FILTERS},
    shard_thorough={"name": ALL_FILTERS},
    path_timeout=15,
    covers="float operands from the special set (inf, -inf, nan, 2^53, 1e308, -0.0, ...) on the left and as argument: only LiquidError escapes",
    bounds="v = FLOATS[fv], w = FLOATS[fw], all 64 pairs; with and without the argument",
    grid=lambda: [(n, a, b) for n in ALL_FILTERS for a in range(8) for b in range(8)],
)
def d_float_float(name: str, fv: int, fw: int) -> bool:
    fv = concrete_int(fv, 0, 7)
    fw = concrete_int(fw, 0, 7)
    if not _only_liquid(_filter_template(name, 1), v=FLOATS[fv], w=FLOATS[fw]):
        return False
    return _only_liquid(_filter_template(name, 0), v=FLOATS[fv], w=None)


@cond(
    pre=["0 <= f < 8", "not isinstance(x, int) or -1 <= x <= 1", "not isinstance(x, str) or (len(x) <= 1 and in_alpha(x, '1-e'))"],
    timeout=200,
    timeout_thorough=400,
    shard={"name": FLOAT_FILTERS},
    shard_thorough={"name": ALL_FILTERS},
    split={"f": list(range(8))},
    path_timeout=15,
    covers="special float on one side, int/bool/nil/short string on the other (both orders)",
    bounds="f in FLOATS; x: int -1..1 (optionally x 2^62) | bool | None | 1-char str over {1 - e}",
    grid=lambda: [(n, a, x, b) for n in ALL_FILTERS for a in range(8) for x in (0, -1, None, True, "1", "e") for b in (False, True)],
)
def d_float_mixed(name: str, f: int, x: Num, big: bool) -> bool:
    f = concrete_int(f, 0, 7)
    # x ranges over a dozen values: turn it into a plain Python value (comparing a symbolic int x 2^62 or
    # parsing a symbolic string against a float stalls the solver), then run the real filter outside the tracer
    if isinstance(x, bool):
        x = bool(x)
    elif isinstance(x, int):
        x = concrete_int(x, -1, 1)
    elif isinstance(x, str):
        for cand in ("", "1", "-", "e"):
            if x == cand:
                x = cand
                break
        else:
            return True
    else:
        x = None
    x = _scale(x, bool(big))
    t = _filter_template(name, 1)
    return untraced(lambda: _only_liquid(t, v=FLOATS[f], w=x) and _only_liquid(t, v=x, w=FLOATS[f]))


_HOSTILE = [0, -1, 7, 10**30, -(10**30), 10**5000, True, False, None, "", "a", "%s", "é=", "1e400", "-.", " 1", "nan", "inf", [], [1, "a", None], [[1], [2]],
            {}, {"a": 1}, 0.5, float("inf"), float("-inf"), float("nan"), 1e308, range(3)]


@cond(
    grid_only=True,
    covers="every registered filter (incl. date, base64 encoders and the babel filters that the solver cannot reach) x 28 hostile values x 3 arities, natively",
    bounds="concrete grid; not a solver verdict",
    grid=lambda: [(n, a, i, j) for n in EVERY_FILTER for a in (0, 1, 2) for i in range(len(_HOSTILE)) for j in (0, 3, 7, 9, 12, 17, 23)],
)
def g_every_filter(name: str, arity: int, i: int, j: int) -> bool:
    if not _only_liquid(_filter_template(name, arity), v=_HOSTILE[i], w=_HOSTILE[j], u=_HOSTILE[(i + j) % len(_HOSTILE)]):
        return False
    if arity == 0:  # the value itself printed, and engine-reserved keyword names supplied by the template
        return _only_liquid(_PRINT_T, v=_HOSTILE[i]) and _only_liquid(_reserved_template(name), v=_HOSTILE[i], w=_HOSTILE[j])
    return True


_PRINT_T = ENV.from_string("{{ v }}|{{ v | append: 'a' }}|{% assign z = v %}{{ z }}{% capture c %}{{ v }}{% endcapture %}").render
_RES: dict = {}


def _reserved_template(name: str):
    if name not in _RES:
        try:
            _RES[name] = ENV.from_string("{{ v | " + name + ": context: w }}|{{ v | " + name + ": environment: w }}").render
        except LiquidError:
            _RES[name] = lambda **d: None
    return _RES[name]


for _n in sorted(ENV.filters):
    _reserved_template(_n)


_DATE_T = [ENV.from_string("{{ v | date: w }}"), ENV.from_string("{{ v | date }}")]
_DATE_V = ["now", "today", "1", "99999999999999999999", "-1", "2001-02-03", "x", "", 0, -1, 10**30, -(10**30), None, True, 1.5, float("inf"), float("nan"), [], {}]
_DATE_W = ["%Y", "%", "%s", "", "%Q", None, 1, "\ud800", "%Y" * 1000]


@cond(
    grid_only=True,
    covers="date filter on a concrete grid of hostile values and formats (dateutil/strftime are C: no solver verdict)",
    bounds="19 values x 9 formats, natively",
    grid=lambda: [(i, j) for i in range(len(_DATE_V)) for j in range(len(_DATE_W))],
)
def g_date(i: int, j: int) -> bool:
    return _only_liquid(_DATE_T[0].render, v=_DATE_V[i], w=_DATE_W[j]) and _only_liquid(_DATE_T[1].render, v=_DATE_V[i])


@cond(
    pre=["0 <= fv < 8"],
    twin=True,
    timeout=60,
    covers="reachability twin: filters do raise LiquidError on some operands and succeed on others",
)
def twin_filter(fv: int, w: Union[int, None]) -> bool:
    t = _filter_template("divided_by", 1)
    try:
        t(v=FLOATS[concrete_int(fv, 0, 7)], w=w)
    except LiquidError:
        return True
    return False


# --------------------------------------------------------------------------------------
# D-C02-loop: for / tablerow arguments
# --------------------------------------------------------------------------------------
_LOOPS = [
    "{% for x in (1..n) limit: l offset: o %}{{ x }}{% endfor %}",
    "{% for x in a limit: l %}{{ x }}{% endfor %}{% for x in a offset: continue %}{{ x }}{% endfor %}",
    "{% for x in a reversed offset: o %}{{ forloop.index }}{% endfor %}",
    "{% tablerow x in a cols: l limit: o %}{{ x }}{% endtablerow %}",
    "{% for x in a limit: l %}{% for y in a offset: o %}{{ forloop.parentloop.index }}{% endfor %}{% endfor %}",
    "{% for x in (l..o) limit: 2 %}{{ x }}{% endfor %}{% for x in (o..l) limit: 1 reversed %}{{ x }}{% endfor %}{{ (l..o) | size }}",
]
_LOOP_T = [ENV.from_string(s) for s in _LOOPS]

Arg = Union[int, bool, None, str]


@cond(
    pre=["0 <= n <= 3", "len(a) <= 2", "all(0 <= i <= 3 for i in a)",
         "not isinstance(l, int) or -2 <= l <= 4", "not isinstance(o, int) or -2 <= o <= 4",
         "not isinstance(l, str) or (len(l) <= 1 and in_alpha(l, NUM_ALPHA))",
         "not isinstance(o, str) or (len(o) <= 1 and in_alpha(o, NUM_ALPHA))"],
    timeout=150,
    timeout_thorough=400,
    shard={"prog": list(range(len(_LOOPS))), "big": [False, True]},
    path_timeout=20,
    covers="for/tablerow with arbitrary limit/offset/cols (negative, zero, beyond sys.maxsize, strings, nil, bool): only LiquidError escapes",
    bounds="limit/offset/cols: int -2..4 (shard big: x 2^62; islice/range are C and realize ints) | bool | None | 1-char str; range end 0..3; list len <= 2 of ints 0..3",
    grid=lambda: [(p, 3, [1, 2], l, o, False) for p in range(len(_LOOPS)) for l in (-1, 0, 1, 10**30, None, "1", "x", True, float("inf")) for o in (-1, 0, 2, None, "-1", 10**30)],
)
def d_loop(prog: int, n: int, a: List[int], l: Arg, o: Arg, big: bool) -> bool:
    return _only_liquid(_LOOP_T[prog].render, n=n, a=a, l=_scale(l, big), o=_scale(o, big))


# --------------------------------------------------------------------------------------
# D-C02-corpus: concrete malformed sources (parser error paths), error objects renderable
# --------------------------------------------------------------------------------------
MALFORMED = [
    "{{ '", '{{ "', "{{ 'a", "{{ a b", "{{ a |", "{{ a | f:", "{% if %}", "{% if a", "{% for %}", "{% for x in %}",
    "{{ a[ }}", "{{ a[1 }}", "{{ a. }}", "{{ (1.. }}", "{{ (1..2 }}", "{% assign %}", "{% assign x = %}", "{% case %}",
    "{% liquid", "{% liquid\nif", "{% raw %}", "{% comment %}", "{#", "{{", "{%", "{{ 1e400 }}", "{{ -1e999 }}", "{{ 1e-400 }}",
    "{{ 1.5e400 }}", "{% if a == %}", "{% if (a %}", "{% if a) %}", "{{ a | f: x=> }}", "{{ \"${\" }}", "{{ '${a' }}",
    "{{ '${a | }' }}", "{% for x in (1..3) limit: %}", "{% cycle %}", "{% include %}", "{% render %}", "{% macro %}",
    "{% call %}", "{% with %}", "{% extends %}", "{% block %}", "{% translate %}", "{% echo %}", "{% unless %}",
    "{% increment %}", "{% decrement %}", "{% capture %}", "{% tablerow %}", "{% endif %}", "{% else %}", "{% when 1 %}",
    "{% break %}", "{{ a | }}", "{{ | a }}", "{{ a.b. }}", "{{ a[\"b\" }}", "{{ a['b }}", "{% if a and %}", "{% if not %}",
    "{{ a if }}", "{{ a if b else }}", "{{ a || }}", "{{ 'a' 'b' }}", "{{ 1 2 }}", "{% liquid\n  echo\n%}", "{% # %", "a{{ b }",
    "{{ 9007199254740993 }}", "{{ 1e5 }}", "{{ -0 }}", "{{ 1e+3 }}",
]


@cond(
    pre=["0 <= j < 5", "0 <= cut <= 40"],
    timeout=150,
    shard={"blk": list(range((len(MALFORMED) + 4) // 5))},
    covers="every prefix of every malformed corpus source: parse + render raise only LiquidError, and the error is renderable with a position inside the source (or no position)",
    bounds=f"{len(MALFORMED)} concrete malformed sources x every prefix length 0..40 (the solver enumerates (source, cut); no symbolic text reaches the lexer's regexes)",
    grid=lambda: [(i // 5, i % 5, c) for i in range(len(MALFORMED)) for c in (40, len(MALFORMED[i]) - 1, len(MALFORMED[i]) // 2)],
)
def d_malformed(blk: int, j: int, cut: int) -> bool:
    i = blk * 5 + concrete_int(j, 0, 4)
    if i >= len(MALFORMED):
        return True
    src = MALFORMED[i][: concrete_int(cut, 0, 40)]
    try:
        ENV.from_string(src).render()
    except LiquidError as e:
        if not _render_error(e):
            return False
        tok = e.token
        if tok is not None and tok.start >= 0 and tok.source == src:
            return tok.start < max(len(src), 1)
        return True
    except Exception:  # noqa: BLE001
        return False
    return True


# --------------------------------------------------------------------------------------
# D-C02-literals: every tag / expression position x every kind of literal (well-formed programs)
# --------------------------------------------------------------------------------------
LIT_KINDS = ["1", "-1", "1.5", "-0.5", "1e2", "2.5e-1", "'s'", '"d"', "true", "false", "nil", "empty", "blank", "(1..2)", "x", "x.y", "x[0]", "x['k']", "'a${x}'"]
SKELETONS = [
    "{{ L }}", "{{ L | default: L }}", "{{ L | append: L | size }}", "{{ L if L else L }}", "{{ L, L | join: '-' }}", "{{ \"${L}\" }}",
    "{% assign v = L %}{{ v }}", "{% echo L %}", "{% cycle L, L %}{% cycle g: L, 1 %}", "{% if L == L %}a{% elsif L %}b{% endif %}", "{% unless L contains L %}a{% endunless %}",
    "{% case L %}{% when L, 1 %}a{% when L or L %}b{% endcase %}", "{% for i in (1..3) limit: L offset: L %}{{ i }}{% endfor %}", "{% for i in L %}{{ i }}{% endfor %}",
    "{% with v: L, w: L %}{{ v }}{% endwith %}", "{% render 'p', v: L %}{% include 'p', v: L %}{% render 'p' with L as v %}{% include 'p' for L as v %}",
    "{% macro m, q: L %}{{ q }}{% endmacro %}{% call m %}{% call m, L %}{% call m, q: L %}", "{% translate c: L, count: L %}a{{ c }}{% plural %}b{% endtranslate %}",
    "{% tablerow i in (1..2) cols: L %}{{ i }}{% endtablerow %}", "{{ a[L] }}{{ a | map: L }}{{ a | where: L, L | size }}{{ a | find: i => i == L }}", "{% liquid\n  assign v = L\n  echo L\n  if L\n    echo 1\n  endif\n%}",
    "{% if (L and L) or not (L) %}a{% endif %}{% if L < L %}b{% endif %}{% if L in L %}c{% endif %}",
]
_LIT_ENV = ShopifyEnvironment(loader=__import__("liquid2").DictLoader({"p": "[{{ v }}]"}))


def _lit_source(sk: int, k1: int, k2: int) -> str:
    parts = SKELETONS[sk].split("L")
    out = parts[0]
    for n, part in enumerate(parts[1:]):
        out += LIT_KINDS[k1 if n % 2 == 0 else k2] + part
    return out


@cond(
    pre=["0 <= k1 < len(LIT_KINDS)", "0 <= k2 < len(LIT_KINDS)"],
    timeout=200,
    shard={"sk": list(range(len(SKELETONS)))},
    covers="well-formed programs: every tag and expression position filled with every kind of literal (ints, floats incl. exponent forms, both string quotings, template strings, true/false/nil/empty/blank, ranges, paths): parsing and rendering raise only LiquidError",
    bounds="22 skeletons x 19 x 19 literal kinds (positions alternate between two solver-chosen kinds); source text is concrete per path",
    grid=lambda: [(sk, a, b) for sk in range(len(SKELETONS)) for a in range(len(LIT_KINDS)) for b in (0, 2, 6, 10, 13, 14)],
)
def d_tag_literals(sk: int, k1: int, k2: int) -> bool:
    src = _lit_source(sk, concrete_int(k1, 0, len(LIT_KINDS) - 1), concrete_int(k2, 0, len(LIT_KINDS) - 1))

    def run():
        try:
            _LIT_ENV.from_string(src).render(x={"y": 1, "k": 2}, a=[{"y": 1}, 2])
        except LiquidError as e:
            return _render_error(e)
        except Exception:  # noqa: BLE001
            return False
        return True

    return untraced(run)


# --------------------------------------------------------------------------------------
# D-C02-source: template SOURCE TEXT as a solver variable (all patterns replaced by validated stand-ins)
# --------------------------------------------------------------------------------------
from . import pymatch  # noqa: E402

AllPyLexer = pymatch.install_all(Lexer)


class _PyEnv(ShopifyEnvironment):
    lexer_class = AllPyLexer


PY_ENV = _PyEnv(loader=__import__("liquid2").DictLoader({"p": "[{{ v }}]"}))
SRC_ALPHA = "{}%#a'\"|.[- \n1"
SRC_ALPHA_T = "{}%#a'|.[ "
PREFIXES = [
    "", "{{", "{{ a", "{{ a |", "{{ 'a", "{% if a", "{%liquid\n", "{%liquid\n#", "{% comment %}", "{#", "{% raw %}", "{% #", "{{ a[",
    "{% for i in (1", "{{ \"${", "a{%-", "{%assign v =", "{%liquid\nif a\n", "{% case a %}{% when", "{{ a.", "{% render 'p'", "{{ 1.", "{##",
]
_STANDIN_VALIDATION = (
    pymatch.validate(Lexer, "a1.'\"[]|:}-( %e+,", 3)
    or pymatch.validate_markup(Lexer, "{}%#-a \n", 4)
    or pymatch.validate_markup(Lexer, ["{%", "%}", "raw", "endraw", "comment", " ", "-", "a", "#", "{#", "#}", "{{", "\n"], 3)
    or pymatch.validate_rest(Lexer, "a#%}-\n\r A_1", 3)
    or pymatch.validate_rest(Lexer, ["{%", "%}", "comment", "endcomment", "raw", "endraw", " ", "-", "a", "\n", "#"], 3)
)


def source_outcome(src: str):
    try:
        t = PY_ENV.from_string(src)
        t.render(a=[1, 2], v="x")
    except LiquidError as e:
        if not _render_error(e):
            return False
        tok = e.token
        if tok is not None and tok.start >= 0 and tok.source == src:
            return 0 <= tok.start < max(len(src), 1) and tok.start <= tok.stop <= max(len(src), 1)
        return True
    except Exception:  # noqa: BLE001
        return False
    return True


@cond(
    pre=["len(suffix) <= N", "in_alpha(suffix, ALPHA)"],
    consts={"N": 2, "ALPHA": SRC_ALPHA},
    consts_thorough={"N": 3, "ALPHA": SRC_ALPHA_T},
    timeout=300,
    timeout_thorough=2400,
    shard={"p": list(range(len(PREFIXES)))},
    covers="template source text as a solver variable: for every continuation of 23 prefixes (each putting the lexer in a different state: content, output, filter, string, tag, liquid tag and its line comments, block comment, {# #} comment, raw, inline comment, bracketed path, range, interpolated string, whitespace-controlled tag, assign, nested line statement, case/when, dotted path, render, float, ## comment) Environment.from_string + render raise only LiquidError, renderable, with a position inside the source",
    bounds="suffix over { } % # a ' \" | . [ - space LF 1 with len <= 2 (thorough: 10-character alphabet, len <= 3); every compiled pattern of the lexer is replaced by a pure-Python stand-in validated exhaustively against the real pattern on short strings at import (the condition fails if validation fails)",
    stubs=("all 13 compiled lexer patterns := pure-Python stand-ins (harness/pymatch.py), validated against the real patterns at import",),
    grid=lambda: [(p, s, 9, SRC_ALPHA) for p in range(len(PREFIXES)) for s in ("", "}}", "%}", " }", "'", "|a", "a}", "#}", "\n%}", "1}}", "[a", "..", "{{", "{%")],
)
def d_source_symbolic(p: int, suffix: str, N: int, ALPHA: str) -> bool:
    if _STANDIN_VALIDATION is not None:
        raise HarnessAbort(f"lexer pattern stand-in differs from the compiled pattern: {_STANDIN_VALIDATION}")
    return source_outcome(PREFIXES[p] + suffix)


# --------------------------------------------------------------------------------------
# D-C02-edit: single-edit mutants of valid templates, the edited character chosen by the solver
# --------------------------------------------------------------------------------------
VALID = [
    "a{{ v | upcase }}b",
    "{% if a %}x{% else %}y{% endif %}",
    "{% for i in a %}{{ i }}{% endfor %}",
    "{{ a[0] }}{{ v.size }}",
    "{% assign z = 'q' %}{{ z }}",
    "{% liquid\necho v\n%}",
    "{{ \"${v}\" }}{# c #}",
    "{% raw %}{{ r }}{% endraw %}",
    "{%- case v -%}{% when 'x' %}1{% endcase %}",
    "{{ (1..3) | join: '-' }}",
    "{% render 'p', v: 1 %}",
    "{{ v if a else 'n' }}",
]
EDIT_ALPHA = "{}%#a'\"|.[]- \n1:"


def _edited(t: int, kind: int, pos: int, ch: str) -> str:
    src = VALID[t]
    if kind == 0:
        return src[:pos] + ch + src[pos + 1 :]
    if kind == 1:
        return src[:pos] + ch + src[pos:]
    return src[:pos] + src[pos + 1 :]


@cond(
    pre=["0 <= pos <= 44", "len(ch) == 1", "in_alpha(ch, EDIT_ALPHA)"],
    timeout=1200,
    tiers=("thorough",),
    shard={"t": list(range(len(VALID))), "kind": [0, 1]},
    covers="single-edit mutants of a valid corpus: one character replaced by, or inserted as, any character of the Liquid-biased alphabet at any position (the character is a solver variable): Environment.from_string + render raise only LiquidError, renderable, with a position inside the source",
    bounds="12 valid templates (every lexer state) x {replace, insert} x every position x 16-character alphabet { } % # a ' \" | . [ ] - space LF 1 :; all compiled lexer patterns replaced by the validated pure-Python stand-ins (harness/pymatch.py)",
    stubs=("all 13 compiled lexer patterns := pure-Python stand-ins (harness/pymatch.py), validated against the real patterns at import",),
)
def d_single_edit(t: int, kind: int, pos: int, ch: str) -> bool:
    if _STANDIN_VALIDATION is not None:
        raise HarnessAbort(f"lexer pattern stand-in differs from the compiled pattern: {_STANDIN_VALIDATION}")
    src = VALID[t]
    if pos > len(src) - (0 if kind == 1 else 1):
        return True
    pos = concrete_int(pos, 0, len(src))
    return source_outcome(_edited(t, kind, pos, ch))


@cond(
    pre=["0 <= t < len(VALID)", "0 <= pos <= 44"],
    timeout=300,
    covers="single-deletion mutants of the valid corpus (template and position chosen by the solver, real regex lexer): parse + render raise only LiquidError, renderable, with a position inside the source",
    bounds="12 valid templates x every position",
    grid=lambda: [(t, p) for t in range(len(VALID)) for p in range(len(VALID[t]))],
)
def d_single_delete(t: int, pos: int) -> bool:
    t = concrete_int(t, 0, len(VALID) - 1)
    if pos >= len(VALID[t]):
        return True
    pos = concrete_int(pos, 0, len(VALID[t]) - 1)
    src = _edited(t, 2, pos, "")

    def run():  # type: ignore[no-untyped-def]  # the source is concrete: real lexer, outside the tracer
        try:
            _LIT_ENV.from_string(src).render(a=[1, 2], v="x")
        except LiquidError as e:
            return _render_error(e) and (e.token is None or e.token.start < 0 or e.token.source != src or 0 <= e.token.start < max(len(src), 1))
        except Exception:  # noqa: BLE001
            return False
        return True

    return untraced(run)


@cond(
    grid_only=True,
    covers="native enumeration of every single-character replacement and insertion over the 16-character alphabet in the 12 valid templates, with the real regex lexer (the solver-decided form is d_single_edit in the thorough tier)",
    bounds="12 templates x 2 edit kinds x every position x 16 characters, natively",
    grid=lambda: [(t, k, p, c) for t in range(len(VALID)) for k in (0, 1) for p in range(len(VALID[t]) + k) for c in EDIT_ALPHA],
)
def g_single_edit(t: int, kind: int, pos: int, ch: str) -> bool:
    src = _edited(t, kind, pos, ch)
    try:
        _LIT_ENV.from_string(src).render(a=[1, 2], v="x")
    except LiquidError as e:
        return _render_error(e)
    except Exception:  # noqa: BLE001
        return False
    return True


# --------------------------------------------------------------------------------------
# S-C02-hostile: well-formed programs of every tag kind over type-confused data (structure and data chosen by the solver)
# --------------------------------------------------------------------------------------
HOSTILE_SRC = [
    "{% for i in (1..2) %}{% for x in forloop %}{{ x }}{% endfor %}{% for y in forloop.parentloop %}{{ y }}{% endfor %}{% endfor %}",
    "{% translate x: w %}100%{{ x }}{% endtranslate %}{% translate x: w, count: u %}{{ x }}%{% plural %}%%{{ x }}{% endtranslate %}",
    "{{ '100%%%(y)s' | t: y: w }}{{ '%(y)s%%' | t: y: u, count: w, plural: '%(y)s' }}",
    "{% assign r = (1..w) %}{{ r.size }}{{ r.first }}{{ r.last }}{{ r[0] }}{{ r | size }}{{ r | first }}",
    "{% assign r = (1..w) %}{% render 'p' for r %}",
    "{% assign r = (u..w) %}{% include 'p' for r %}",
    "{% if (1..w) contains u %}a{% endif %}{% if (1..w) contains 2.5 %}b{% endif %}{% if w contains u %}c{% endif %}{% if u in w %}d{% endif %}",
    "{% for x in w %}{% for y in x %}{{ y }}{% endfor %}{{ forloop.index }}{% else %}E{% endfor %}",
    "{% tablerow x in w cols: u %}{{ x }}{{ tablerowloop.col }}{% endtablerow %}{% tablerow x in (1..3) cols: w limit: u offset: w %}{{ x }}{% endtablerow %}",
    "{% with a: w %}{% for i in a limit: u offset: w %}{{ forloop.length }}{% endfor %}{% for i in (1..3) limit: w offset: u reversed %}{{ i }}{% endfor %}{% endwith %}",
    "{{ w[u] }}{{ w.size }}{{ w.first }}{{ w.last }}{{ w[0] }}{{ w[-1] }}{{ w[w] }}{{ u[w].x }}",
    "{% case w %}{% when u %}x{% when w %}y{% else %}z{% endcase %}{{ w if u else w | default: u }}{% unless w == u %}n{% endunless %}",
    "{% render 'p' with w as p %}{% include 'p' for w as q %}{% render 'p', p: u %}{% include 'p', p: w %}{% render 'p' for w %}",
    "{% macro m, a, b: w %}{{ a }}{{ b }}{{ args | size }}{% endmacro %}{% call m, w %}{% call m, u, b: u %}{% call m %}",
    "{{ \"a${w}b${ u | upcase }\" }}{% liquid\n echo w\n assign q = w | json\n echo q | size\n%}{% cycle w, u %}{% cycle w: 1, 2 %}",
    "{% if w < u %}lt{% endif %}{% if w >= u %}ge{% endif %}{% if w and u or w %}t{% endif %}{% if w == empty or w == blank or w != nil %}e{% endif %}",
    "{% capture c %}{{ w }}{% endcapture %}{{ c | size }}{% assign z = w %}{{ z }}{% echo w | default: u %}{% increment k %}{{ k | plus: w }}",
]
N_HOSTILE = len(_HOSTILE)
_HOSTILE_ENV = ShopifyEnvironment(loader=__import__("liquid2").DictLoader({"p": "[{{ p }}{{ q }}]"}))
HOSTILE_T = [_HOSTILE_ENV.from_string(s) for s in HOSTILE_SRC]


@cond(
    pre=["0 <= i < N_HOSTILE", "0 <= j < N_HOSTILE"],
    timeout=300,
    shard={"p": list(range(len(HOSTILE_SRC)))},
    covers="well-formed programs of every tag kind (nested loops over loop drops, translate blocks and filters with literal percent signs, huge ranges in size/first/last/render-for/include-for, contains on ranges and confused operands, tablerow/for arguments, paths, case/ternary/unless, partial bindings, macros, template strings, liquid tag, cycle, comparisons, capture/assign/echo/increment) rendered against every pair of type-confused values (nan, inf, 10^30, 10^5000, negative, wrong container types, nested values, ranges): only LiquidError escapes, sync and async",
    bounds="17 programs x 29 x 29 hostile values (solver-chosen indexes, concrete execution)",
    grid=lambda: [(p, i, j) for p in range(len(HOSTILE_SRC)) for i in (0, 3, 5, 9, 17, 23, 26, 28) for j in (1, 3, 7, 12, 20, 24)],
)
def s_hostile(p: int, i: int, j: int) -> bool:
    i, j = concrete_int(i, 0, len(_HOSTILE) - 1), concrete_int(j, 0, len(_HOSTILE) - 1)

    def run() -> bool:
        t = HOSTILE_T[p]
        if not _only_liquid(t.render, w=_HOSTILE[i], u=_HOSTILE[j]):
            return False
        return _only_liquid(lambda **d: drive(t.render_async(**d)), w=_HOSTILE[i], u=_HOSTILE[j])

    return untraced(run)
