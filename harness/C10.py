"""C10 - templates may shadow caller data but never change it; lookup precedence holds."""

from __future__ import annotations

from vf.cond import cond

from .common import drive, DictLoader, Environment, LiquidError, concrete_int, untraced

from liquid2.loader import BaseLoader, TemplateSource  # noqa: E402
from liquid2.shopify import Environment as ShopifyEnvironment  # noqa: E402

EXPLANATION = (
    "Caller data is built twice from the same solver variables (the object handed to the engine and an independent "
    "snapshot); after a render - successful or failing - the two must be equal. Precedence: presence bits for the eight "
    "namespace layers are solver variables; the rendered value must come from the highest present layer."
)
OUTSIDE = [
    "containers longer than 3 / nested deeper than 2; element values other than small ints (0..2) for sorting filters",
    "babel filters; filters given arguments other than the listed ones",
]


class _MatterLoader(BaseLoader):
    def __init__(self, source: str, matter: dict):
        self.source = source
        self.matter = matter

    def get_source(self, env, template_name, *, context=None, **kwargs):  # type: ignore[no-untyped-def]
        return TemplateSource(self.source, template_name, None, self.matter)


from liquid2.builtin.loaders.mixins import CachingLoaderMixin  # noqa: E402


class _CachingMatterLoader(CachingLoaderMixin, _MatterLoader):
    def __init__(self, source: str, matter: dict):
        CachingLoaderMixin.__init__(self, auto_reload=False, namespace_key="", capacity=10)
        _MatterLoader.__init__(self, source, matter)


PROGRAMS = [
    "{% assign r = a | sort %}{% assign r = a | sort_natural %}{% assign r = a | sort_numeric %}{{ a | reverse | first }}",
    "{% assign r = a | concat: a %}{% assign r = a | uniq %}{% assign r = a | compact %}{% assign r = a | slice: 1, 2 %}{{ a | join: ',' }}",
    "{% assign r = a | map: 'k' %}{% assign r = a | where: 'k' %}{% assign r = a | reject: 'k' %}{% assign r = a | sum %}{{ a | find: 'k' }}{{ a | has: 'k' }}{{ a | first }}{{ a | last }}{{ a | size }}",
    "{% for i in a offset: 1 %}{{ i }}{% endfor %}{% for i in a reversed limit: 2 %}{{ i }}{% endfor %}{% for i in a offset: continue %}{% endfor %}{% tablerow i in a cols: 2 %}{{ i }}{% endtablerow %}",
    "{% assign a2 = a | sort | reverse %}{% assign a = a | reverse %}{% capture a %}x{% endcapture %}{% assign n = n | concat: a2 %}{{ n | sort | first }}{% assign d = d | sort %}",
    "{% assign r = n | sort %}{% assign r = n | concat: n | uniq %}{% assign r = n | first | reverse %}{% for row in n %}{% for i in row reversed %}{{ i }}{% endfor %}{% endfor %}{{ n | join: '|' }}",
    "{% assign r = d.k | sort | reverse %}{% assign r = d | sort %}{% assign r = d | map: 'k' %}{% for p in d %}{{ p[0] }}{% assign q = p[1] | reverse %}{% endfor %}{{ d.k | uniq | join: ',' }}{{ d | size }}",
    "{% assign r = a | sort %}{{ a | first | divided_by: z }}{% assign r = a | reverse %}",
    "{{ a | sort: 'k' | size }}{{ a | uniq: 'k' | size }}{{ a | compact: 'k' | size }}{{ a | sum: 'k' }}{{ a | where: 'k', 1 | size }}{{ a | map: i => i | size }}{{ a | sort: i => i | size }}",
]

ENV = ShopifyEnvironment()


def _mk(i0: int, i1: int, i2: int, n: int) -> dict:
    a = [i0, i1, i2][:n]
    return {"a": a, "n": [[i1, i0], a], "d": {"k": [i2, i0], "j": i1}, "z": i0}


def _role_render(src: str, role: int, data: dict, is_async: bool = False) -> None:
    def build():  # object graph construction is concrete; `data` (symbolic) is only stored
        if role == 0:
            e = ShopifyEnvironment(globals=data)
            return e.from_string(src), {}
        if role == 1:
            return ENV.from_string(src, globals=data), {}
        if role == 2:
            e = ShopifyEnvironment(loader=_MatterLoader(src, data))
            return e.get_template("t"), {}
        return ENV.from_string(src), data

    t, args = untraced(build)
    if is_async:
        drive(t.render_async(**args))
    else:
        t.render(**args)


@cond(
    pre=["0 <= i0 <= 2", "0 <= i1 <= 2", "0 <= i2 <= 2", "0 <= n <= 3", "0 <= role <= 3"],
    timeout=300,
    shard={"p": list(range(len(PROGRAMS)))},
    covers="after any render (also one that fails at a data-dependent division by zero) every container supplied as environment globals, template globals, loader matter or render arguments is deep-equal to an independent snapshot: sort/sort_natural/sort_numeric/reverse/concat/uniq/compact/slice/join/map/where/reject/sum/find/has/first/last/size, for with offset/limit/reversed/continue, tablerow, shadowing assign/capture, nested lists and hashes, lambda and keyed forms; render() and render_async()",
    bounds="list a of up to 3 ints 0..2, nested list n, hash d built from the same ints; 4 roles (solver choice); 9 programs",
    grid=lambda: [(p, 2, 0, 1, 3, r, a) for p in range(len(PROGRAMS)) for r in range(4) for a in (False, True)] + [(7, 0, 1, 2, 3, r, True) for r in range(4)],
)
def d_immutable(p: int, i0: int, i1: int, i2: int, n: int, role: int, is_async: bool) -> bool:
    n = concrete_int(n, 0, 3)
    data = _mk(i0, i1, i2, n)
    snapshot = _mk(i0, i1, i2, n)
    try:
        _role_render(PROGRAMS[p], concrete_int(role, 0, 3), data, bool(is_async))
    except LiquidError:
        pass
    except Exception:  # noqa: BLE001
        return False
    return data == snapshot


# ---- precedence ---------------------------------------------------------------------------------
def _prec_source(name: str, counter: bool, local: bool, block: bool) -> str:
    s = ""
    if counter:
        s += "{% increment " + name + " %}|"
    if local:
        s += "{% assign " + name + " = 2 %}"
    if block:
        s += "{% with " + name + ": 1 %}[{{ " + name + " }}]{% endwith %}"
    else:
        s += "[{{ " + name + " }}]"
    return s


@cond(
    pre=["0 <= cached <= 2"],
    timeout=300,
    shard={"name": ["v", "now"]},
    covers="a name bound in any subset of the layers block scope / local / render argument / loader matter / template global / environment global / built-in (now) / counter resolves to the highest present layer, in exactly that order - also when the template is served by a caching loader, on the first load and on a cache hit",
    bounds="2^7 presence assignments for name v (no built-in) and for name now (built-in always present, counter therefore never visible); distinct value per layer; plain loader / caching loader first load / caching loader cache hit",
    grid=lambda: [(nm, b0, b1, b2, b3, b4, b5, b6, c) for nm in ("v", "now") for b0 in (0, 1) for b1 in (0, 1) for b2 in (0, 1) for b3 in (0, 1) for b4 in (0, 1) for b5 in (0, 1) for b6 in (0, 1) for c in (0, 1, 2)],
)
def s_precedence(name: str, block: bool, local: bool, arg: bool, matter: bool, tglobal: bool, eglobal: bool, counter: bool, cached: int) -> bool:
    block, local, arg, matter, tglobal, eglobal, counter = (bool(x) for x in (block, local, arg, matter, tglobal, eglobal, counter))
    cached = concrete_int(cached, 0, 2)
    src = _prec_source(name, counter, local, block)

    def run():
        # cached == 0: plain loader; 1: caching loader, first load; 2: caching loader, the template comes from a cache hit
        loader_cls = _CachingMatterLoader if cached else _MatterLoader
        e = Environment(loader=loader_cls(src, {name: 4} if matter else {}), globals={name: 6} if eglobal else None)
        if cached == 2:
            e.get_template("t", globals={name: 5} if tglobal else None)
        t = e.get_template("t", globals={name: 5} if tglobal else None)
        try:
            return t.render(**({name: 3} if arg else {}))
        except LiquidError:
            return None

    out = untraced(run)  # every input is concrete: the solver enumerates the presence assignments
    if out is None:
        return False
    i, j = out.find("["), out.find("]")
    got = out[i + 1 : j]
    for present, val in ((block, "1"), (local, "2"), (arg, "3"), (matter, "4"), (tglobal, "5"), (eglobal, "6")):
        if present:
            return got == val
    if name == "now":
        return len(got) >= 10 and got[:2] == "20"  # the built-in datetime, never the counter
    if counter:
        return got == "1"
    return got == ""


TWIN_T = ENV.from_string("{% assign a = a | reverse %}{{ a | first }}")


LAYERS = ["block", "local", "arg", "matter", "tglobal", "eglobal"]


@cond(
    pre=["0 <= hi < 6", "0 <= lo < 7", "hi < lo", "0 <= sv < 3"],
    timeout=300,
    shard={"name": ["v", "now"]},
    covers="a name bound to nil (or false, or an empty string) in a higher-priority layer shadows every lower layer: the lower binding must not show through",
    bounds="all ordered pairs of the 6 data/template layers (+ built-in for `now`, + counter for v) x shadowing value in {nil, false, ''}",
    grid=lambda: [(nm, hi, lo, sv) for nm in ("v", "now") for hi in range(6) for lo in range(hi + 1, 7) for sv in range(3)],
)
def s_nil_shadows(name: str, hi: int, lo: int, sv: int) -> bool:
    hi, lo = concrete_int(hi, 0, 5), concrete_int(lo, 0, 6)
    shadow = [None, False, ""][concrete_int(sv, 0, 2)]
    shadow_lit = ["nil", "false", "''"][sv]

    def val(layer: int):
        if layer == hi:
            return (True, shadow)
        if layer == lo:
            return (True, 7)
        return (False, None)

    present = [val(k) for k in range(6)]
    src = ""
    if lo == 6 and name == "v":
        src += "{% increment v %}|"  # lowest layer: the counter
    if present[1][0]:
        src += "{% assign " + name + " = " + (shadow_lit if hi == 1 else "7") + " %}"
    if present[0][0]:
        src += "{% with " + name + ": " + (shadow_lit if hi == 0 else "7") + " %}[{{ " + name + " }}]{% endwith %}"
    else:
        src += "[{{ " + name + " }}]"

    def build():
        e = Environment(loader=_MatterLoader(src, {name: present[3][1]} if present[3][0] else {}), globals={name: present[5][1]} if present[5][0] else None)
        return e.get_template("t", globals={name: present[4][1]} if present[4][0] else None)

    t = untraced(build)
    try:
        out = t.render(**({name: present[2][1]} if present[2][0] else {}))
    except LiquidError:
        return False
    i, j = out.find("["), out.find("]")
    return out[i + 1 : j] == ("false" if shadow is False else "")


@cond(pre=["0 <= i0 <= 2"], twin=True, timeout=60, covers="reachability twin: templates do shadow the caller's names locally")
def twin_shadow(i0: int) -> bool:
    out = TWIN_T.render(a=[i0, 9])
    return out == str(i0)
