"""C09 - a render depends only on its inputs, never on earlier or concurrent renders."""

from __future__ import annotations

import datetime as _real_datetime
import types

from vf.cond import cond

from .common import DictLoader, Environment as _Environment, LiquidError, concrete_int, drive, tier, untraced

import liquid2.builtin.filters.misc as _misc  # noqa: E402
import liquid2.context as _ctxmod  # noqa: E402
from liquid2 import CachingDictLoader  # noqa: E402

class Environment(_Environment):
    """Template sources are concrete here: parsing (also of partials loaded during a render) runs outside the tracer."""

    def parse(self, source):  # type: ignore[no-untyped-def]
        return untraced(lambda: _Environment.parse(self, source))


EXPLANATION = (
    "Histories of operations on shared Environment/Template/loader objects are solver-chosen; the clock is a stub "
    "whose instants are solver-chosen non-decreasing values; every step is compared with the same call on freshly "
    "built objects at the same instant."
)
TECHNIQUE = (
    "symbolic execution with z3 (CrossHair) over choice variables (configurations, operation codes, schedule bits): the solver "
    "enumerates the bounded structure space and certifies that no choice is left; the real liquid2 code then runs natively on "
    "each chosen structure (nothing symbolic reaches it); counterexamples are replayed natively"
)
OUTSIDE = [
    "thread-level concurrency; real clocks and time zones; strftime on instants outside the 3 stub instants",
    "histories longer than 2 prior steps + 1 observation; more than the 7 templates listed",
]
STUBS = (
    "datetime module as seen by liquid2.context and liquid2.builtin.filters.misc := stub whose now()/today() return the harness's current instant",
    "shared and fresh object graphs are built with tracing suspended (parsing is concrete; only the history and data are symbolic)",
)

# ---- clock stub -------------------------------------------------------------------------------
_NOW = [0]
_T0 = _real_datetime.datetime(2001, 2, 3, 4, 5, 6)


class _FakeDateTime(_real_datetime.datetime):
    @classmethod
    def now(cls, tz=None):  # type: ignore[no-untyped-def]
        return cls(2001, 2, 3 + int(_NOW[0]), 4, 5, 6)


class _FakeDate(_real_datetime.date):
    @classmethod
    def today(cls):  # type: ignore[no-untyped-def]
        return cls(2001, 2, 3 + int(_NOW[0]))


_fake = types.SimpleNamespace(datetime=_FakeDateTime, date=_FakeDate, timedelta=_real_datetime.timedelta)
_misc.datetime = _fake  # type: ignore[attr-defined]
_ctxmod.datetime = _fake  # type: ignore[attr-defined]

# ---- programs using every kind of per-render state --------------------------------------------
SOURCES = {
    "t0": "{% increment c %}{% increment c %}{% decrement d %}{% cycle 'a', 'b' %}{% cycle 'a', 'b' %}{% cycle 'a', 'b' %}{{ c }}{{ d }}<{{ x }}>",
    "t1": "{% for i in a limit: 1 %}{{ i }}{% endfor %}{% for i in a offset: continue %}{{ i }}{% endfor %}{{ z }}{% capture q %}{{ x }}{% endcapture %}{% assign z = x %}{{ q }}{{ z }}",
    "t2": "{% call m %}{% macro m %}M{{ x }}{% endmacro %}{% call m %}{% include 'inc' %}{{ y }}{% for i in a %}{% render 'rp', v: i %}{% endfor %}",
    "t3": "{% extends 'base' %}{% block b %}[{{ x }}{{ block.super }}]{% endblock %}",
    "t4": "{{ 'now' | date: '%d' }}|{{ 'today' | date: '%d' }}|{{ now | date: '%d' }}|{{ today | date: '%d' }}",
    "t5": "{% macro mm, w %}{% render 'rp', v: w %}{% for i in a %}{% render 'rp', v: i %}{% endfor %}{% endmacro %}{% call mm, x %}{% with q: x %}{% call mm, q %}{% endwith %}",
    "t6": "{% render 't3', x: x %}|{% render 'base', x: 1 %}|{% for i in a %}{% render 'base', x: i %}{% endfor %}",
    "base": "B{% block b %}p{% endblock %}{% block r %}{{ x }}{% endblock %}E",
    "inc": "{% assign y = x %}{% increment c %}I",
    "rp": "(r{{ v }})",
}
NAMES = ["t0", "t1", "t2", "t3", "t4", "t5", "t6"]


class _Bomb(dict):
    """Data whose k-th lookup fails (a fault injected by the caller's data)."""

    def __init__(self, data: dict, k: int):
        super().__init__(data)
        self.k = k

    def __getitem__(self, key):  # type: ignore[no-untyped-def]
        self.k -= 1
        if self.k <= 0:
            raise RuntimeError("injected fault")
        return super().__getitem__(key)


def _build(caching: bool):
    loader = (CachingDictLoader if caching else DictLoader)(dict(SOURCES))
    env = Environment(loader=loader)
    return env, {n: env.get_template(n) for n in NAMES}


def _data(x: int) -> dict:
    return {"x": x, "a": [1, 2, 3][: x + 1]}


def _observe(objs, name: str, is_async: bool, x: int):
    env, tpls = objs
    t = tpls[name]
    try:
        return ("ok", drive(t.render_async(**_data(x))) if is_async else t.render(**_data(x)))
    except LiquidError as e:
        return ("liquid", type(e).__name__)


def _disturb(objs, kind: int, name: str, x: int) -> None:
    """An earlier operation on the shared objects."""
    env, tpls = objs
    t = tpls[name]
    try:
        if kind == 0:
            t.render(**_data(x))
        elif kind == 1:
            drive(t.render_async(**_data(x)))
        elif kind == 2:
            t.analyze()
        elif kind == 3:
            t.render(_Bomb(_data(x), 2))
        elif kind == 4:
            env.from_string("{% increment c %}{% cycle 'a', 'b' %}{% macro m %}X{% endmacro %}{% assign z = 9 %}").render()
            env.get_template(name)
        elif kind == 6:
            # the loader's contents change (partials and parent edited): later renders must see the new text
            env.loader.templates["rp"] = "(R2{{ v }})"
            env.loader.templates["inc"] = "{% assign y = 5 %}I2"
            env.loader.templates["base"] = "B2{% block b %}q{% endblock %}E2"
        elif kind == 7:
            env.loader.templates.pop("rp", None)
        else:
            other = Environment()
            other.filters["date"] = lambda *a, **k: "hijacked"
            other.tags.pop("increment", None)
            other.from_string("{{ 1 | date: 'x' }}").render()
    except RuntimeError:
        pass
    except LiquidError:
        pass


def _history_ok(steps: list[tuple[int, int, int]], final: tuple[int, bool, int], deltas: list[int], caching: bool) -> bool:
    # the final observation, made before the history on objects of its own at the final instant: the
    # same inputs must give the same outcome afterwards (state kept at class or module level by an
    # earlier operation would be invisible to a comparison with fresh objects built after it)
    _NOW[0] = sum(deltas)
    before = _observe(untraced(lambda: _build(caching)), NAMES[final[0]], final[1], final[2])
    _NOW[0] = 0
    shared = untraced(lambda: _build(caching))
    edited = False
    for (kind, ti, x), dt in zip(steps, deltas):
        if caching and kind in (6, 7):
            kind = 0  # a caching loader without freshness information legitimately keeps serving the old text (C14)
        edited = edited or kind in (6, 7)
        _disturb(shared, kind, NAMES[ti], x)
        _NOW[0] += dt
    ti, is_async, x = final
    got = _observe(shared, NAMES[ti], is_async, x)
    current = dict(shared[0].loader.templates)

    def build_fresh():  # fresh objects over the loader contents as they are *now*
        loader = (CachingDictLoader if caching else DictLoader)(current)
        env = Environment(loader=loader)
        tpls = {}
        for nm in NAMES:
            tpls[nm] = env.from_string(SOURCES[nm], name=nm)
        return env, tpls

    fresh = untraced(build_fresh)
    want = _observe(fresh, NAMES[ti], is_async, x)
    if got != want:
        return False
    if not edited and got != before:
        return False
    return True


N_KIND = 8


@cond(
    pre=["0 <= k1 < N_KIND", "0 <= t1 < len(NAMES)", "0 <= x <= 2", "0 <= d1 <= 1"],
    timeout=300,
    shard={"tf": list(range(len(NAMES))), "is_async": [False, True], "caching": [False, True]},
    covers="one earlier operation (render, render_async, analyze, a render that fails at a data access, from_string/get_template on the same Environment, configuring another Environment) on any template, then a render of any template after the clock advanced: output equals the same render on freshly built objects at the same instant, and (when the loader contents were not edited) the outcome of the same observation made before the history - so state kept at class or module level is observed too",
    bounds="7 templates using counters, cycles, offset: continue, capture, assign, macros (also rendering partials from a macro body), include, extends/block.super, render of a partial that extends / defines blocks, now/today/'now' | date; 8 operation kinds (incl. editing / deleting partials and parents in the loader between renders); data x in 0..2 (earlier step uses 2 - x); clock delta 0..1 days; caching and non-caching loader",
    stubs=STUBS,
    grid=lambda: [(tf, a, k, t, 2, 1, c) for tf in range(len(NAMES)) for a in (False, True) for k in range(N_KIND) for t in (0, 4, 5) for c in (False, True)],
)
def s_hist1(tf: int, is_async: bool, k1: int, t1: int, x: int, d1: int, caching: bool) -> bool:
    x = concrete_int(x, 0, 2)
    steps = [(concrete_int(k1, 0, N_KIND - 1), concrete_int(t1, 0, len(NAMES) - 1), 2 - x)]
    deltas = [concrete_int(d1, 0, 1)]
    return untraced(lambda: _history_ok(steps, (tf, is_async, x), deltas, caching))  # every input is concrete from here on


@cond(
    pre=["0 <= k1 < N_KIND", "0 <= k2 < N_KIND", "0 <= t2 < len(NAMES)", "0 <= x <= 2", "0 <= d1 <= 1", "0 <= d2 <= 1"],
    timeout=1200,
    tiers=("thorough",),
    shard={"tf": list(range(len(NAMES))), "t1": list(range(len(NAMES))), "is_async": [False, True]},
    covers="two earlier operations, as s_hist1",
    bounds="8 x 7 x 8 x 7 histories x 7 observed templates x sync/async x data 0..2 x clock deltas",
    stubs=STUBS,
)
def s_hist2(tf: int, is_async: bool, t1: int, k1: int, k2: int, t2: int, x: int, d1: int, d2: int) -> bool:
    x = concrete_int(x, 0, 2)
    steps = [(concrete_int(k1, 0, N_KIND - 1), t1, x), (concrete_int(k2, 0, N_KIND - 1), concrete_int(t2, 0, len(NAMES) - 1), 2 - x)]
    deltas = [concrete_int(d1, 0, 1), concrete_int(d2, 0, 1)]
    return untraced(lambda: _history_ok(steps, (tf, is_async, x), deltas, False))


@cond(
    pre=["0 <= k1 < N_KIND", "0 <= k2 < N_KIND", "0 <= t2 < len(NAMES)"],
    timeout=400,
    tiers=("quick",),
    shard={"tf": list(range(len(NAMES))), "t1": list(range(len(NAMES))), "is_async": [False, True]},
    covers="two earlier operations (any kinds, any templates) before the observation, as s_hist1, at one data point (the thorough tier varies data and clock as well)",
    bounds="8 x 7 x 8 x 7 histories x 7 observed templates x sync/async; x = 1, clock advances one day per step",
    stubs=STUBS,
)
def s_hist2q(tf: int, is_async: bool, t1: int, k1: int, k2: int, t2: int) -> bool:
    steps = [(concrete_int(k1, 0, N_KIND - 1), t1, 1), (concrete_int(k2, 0, N_KIND - 1), concrete_int(t2, 0, len(NAMES) - 1), 1)]
    return untraced(lambda: _history_ok(steps, (tf, is_async, 1), [1, 1], False))


@cond(
    pre=["0 <= x <= 2", "6 <= edit <= 7"],
    timeout=200,
    shard={"tf": list(range(len(NAMES)))},
    covers="render T, then the loader's contents change (partials/parents edited or deleted), then render T again: the second render equals a render on fresh objects over the current loader contents (nothing loaded for the first render is remembered by the Template or its nodes)",
    bounds="7 templates x sync/async for either render x data 0..2 x {edit, delete}; non-caching loader",
    stubs=STUBS,
    grid=lambda: [(tf, a1, a2, x, e) for tf in range(len(NAMES)) for a1 in (False, True) for a2 in (False, True) for x in (0, 2) for e in (6, 7)],
)
def s_edit_between(tf: int, a1: bool, a2: bool, x: int, edit: int) -> bool:
    x = concrete_int(x, 0, 2)
    steps = [(1 if a1 else 0, tf, x), (concrete_int(edit, 6, 7), tf, x)]
    a2 = bool(a2)
    return untraced(lambda: _history_ok(steps, (tf, a2, x), [0, 0], False))


@cond(
    pre=["0 <= d1 <= 2"],
    twin=True,
    timeout=60,
    covers="reachability twin: the stub clock is observed by renders (output changes when the clock advances)",
)
def twin_clock(d1: int) -> bool:
    _NOW[0] = 0
    objs = untraced(lambda: _build(False))
    a = _observe(objs, "t4", False, 0)
    _NOW[0] = concrete_int(d1, 0, 2)
    return _observe(objs, "t4", False, 0) == a


# ---- concurrent renders of shared Template objects -------------------------------------------------
class _Yield:
    def __await__(self):  # type: ignore[no-untyped-def]
        yield None


class SlowDrop(dict):
    """Data whose async item access really suspends: one scheduling point per lookup."""

    async def __getitem_async__(self, key):  # type: ignore[no-untyped-def]
        await _Yield()
        return dict.__getitem__(self, key)


CONC_SRC = [
    "{% case d.a %}{% when 1 %}[A {{ d.b }}]{% when 2 %}[B {{ d.b }}]{% when 3 %}[C {{ d.a }}]{% else %}[E {{ d.b }}]{% endcase %}",
    "{% increment c %}{{ d.a }}{% cycle 'a', 'b' %}{{ d.b }}{% cycle 'a', 'b' %}{% increment c %}{{ c }}",
    "{% for i in d.l limit: 1 %}{{ i }}{{ d.a }}{% endfor %}{% for i in d.l offset: continue %}{{ i }}{{ d.b }}{% endfor %}",
    "{% if d.a == 1 %}{{ d.b }}X{% elsif d.a == 2 %}{{ d.b }}Y{% else %}Z{% endif %}{% unless d.b == 2 %}U{% endunless %}{{ d.a if d.b == 1 else d.a | plus: d.b }}",
    "{% macro m, u %}({{ u }}{{ d.b }}){% endmacro %}{% call m, d.a %}{% render 'rp', v: d.a %}{% with q: d.a %}{{ q }}{{ d.b }}{% endwith %}{% capture k %}{{ d.a }}{% endcapture %}{{ k }}",
    "{% extends 'base' %}{% block b %}[{{ d.a }}{{ block.super }}{{ d.b }}]{% endblock %}",
    "{% liquid\n assign z = d.a\n echo z\n echo d.b\n%}{{ \"s${d.a}-${d.b}\" }}{% tablerow r in d.l cols: 2 %}{{ r }}{{ d.a }}{% endtablerow %}".replace("{% tablerow r in d.l cols: 2 %}", "{% for r in d.l %}").replace("{% endtablerow %}", "{% endfor %}"),
]
CONC_ENV = Environment(loader=DictLoader(dict(SOURCES)))
CONC_T = [CONC_ENV.from_string(s) for s in CONC_SRC]
for _t in CONC_T:
    try:
        _t.render(d={"a": 1, "b": 2, "l": [1, 2]}, x=0)
    except Exception:  # noqa: BLE001
        pass


def _conc_ok(ts: list, datas: list, schedule: list) -> bool:
    wants, coros = [], []
    for ti, (va, vb) in zip(ts, datas):
        t = CONC_T[ti]
        try:
            wants.append(("ok", t.render(d={"a": va, "b": vb, "l": [va, vb, 7]}, x=va)))
        except LiquidError as e:
            wants.append(("err", type(e).__name__))
        coros.append(t.render_async(d=SlowDrop(a=va, b=vb, l=[va, vb, 7]), x=va))
    results: list = [None] * len(coros)
    live = list(range(len(coros)))
    k = 0
    while live:
        if len(live) > 1:
            pick = live[(schedule[k] if k < len(schedule) else 0) % len(live)]
            k += 1
        else:
            pick = live[0]
        try:
            coros[pick].send(None)
        except StopIteration as e:
            results[pick] = ("ok", e.value)
            live.remove(pick)
        except LiquidError as e:
            results[pick] = ("err", type(e).__name__)
            live.remove(pick)
    return results == wants


CONC_PAIRS = [(i, i) for i in range(len(CONC_SRC))] + [(i, (i + 1) % len(CONC_SRC)) for i in range(len(CONC_SRC))]


@cond(
    pre=["1 <= va <= 3", "1 <= vb <= 3"],
    timeout=400,
    timeout_thorough=1500,
    shard={"pair": list(range(len(CONC_PAIRS)))},
    covers="two concurrent render_async() calls on shared Template objects (the same template twice, or two templates of one Environment) with different data, suspended at every drop lookup: for every schedule each render returns what it returns alone - nothing a render keeps while suspended (case subject, counters, cycles, loop positions, macro and block stacks, captures) is visible to the other",
    bounds="14 template pairs (7 templates: case/when with awaits between the tests, counters+cycles, offset: continue, if/elsif/ternary, macro/render/with/capture, extends/block.super, liquid tag + template strings + loop) x data (a, b) in 1..3 x 1..3 for the first render (the second gets (b, a)) x 2^9 schedules (thorough 2^12)",
    grid=lambda: [(p, a, b) + tuple(s if n % 2 == 0 else not s for n in range(12)) for p in range(len(CONC_PAIRS)) for a in (1, 2) for b in (2, 3) for s in (False, True)],
)
def s_concurrent(pair: int, va: int, vb: int, s0: bool, s1: bool, s2: bool, s3: bool, s4: bool, s5: bool, s6: bool, s7: bool, s8: bool, s9: bool, s10: bool, s11: bool) -> bool:
    va, vb = concrete_int(va, 1, 3), concrete_int(vb, 1, 3)
    bits = [s0, s1, s2, s3, s4, s5, s6, s7, s8] + ([s9, s10, s11] if tier() == "thorough" else [])
    schedule = [1 if b else 0 for b in bits]
    ts = list(CONC_PAIRS[pair])
    return untraced(lambda: _conc_ok(ts, [(va, vb), (vb, va)], schedule))
