"""C12 - serialising a template and reparsing it preserves its behaviour."""

from __future__ import annotations

import pickle
from typing import List

from vf.cond import cond

from .common import DictLoader, LiquidError, concrete_int

from liquid2.shopify import Environment as ShopifyEnvironment  # noqa: E402

EXPLANATION = (
    "For every corpus template T (all built-in and Shopify tags, every expression form named in the property), and for "
    "all data: render(parse(str(T))) == render(T), the same after a second round trip, str is a fixed point after one "
    "round trip, and pickle.loads(pickle.dumps(T)) renders identically. Data are solver variables."
)
OUTSIDE = [
    "string literal values outside the corpus (repr() of control characters emits \\x escapes that Liquid rejects)",
    "float literals whose repr is in exponent form; templates outside the corpus",
]

PARTS = {"p": "[{{ v }}{{ i }}]", "base": "B{% block b %}p{% endblock %}{% block c required %}{% endblock %}E"}
ENV = ShopifyEnvironment(loader=DictLoader(dict(PARTS)))

CORPUS = [
    "{{ nil }}|{{ null }}|{{ empty }}|{{ blank }}|{{ true }}|{{ false }}|{{ 1 }}|{{ -2 }}|{{ 1.5 }}|{{ 'a\\'b' }}|{{ \"q\\\"r\" }}",
    "{{ 'abc' | slice: 1, 2 }}|{{ x | default: 'd', allow_false: true }}|{{ s | replace: 'a', 'b' | upcase }}|{{ a | join: ', ' }}",
    "{{ ['a b'] }}|{{ o['a b'] }}|{{ o.k.z }}|{{ o[\"k\"].z }}|{{ a[0] }}|{{ a[x] }}|{{ o[k].z }}|{{ a.first }}|{{ o['it\\'s'] }}",
    "{{ a | map: i => i }}|{{ a | where: i => i == x | size }}|{{ a | find: (i, j) => j == x }}|{{ h | map: 'k' | join: ',' }}|{{ h | sort: 'k' | size }}",
    "{{ 'y' if x else 'n' }}|{{ x | plus: 1 if x > 1 else 0 | minus: 1 || append: '!' | upcase }}|{{ 'q' if not (x == 1 or b) and s }}",
    "{{ \"a${x}b\" }}|{{ 'n=${ x | plus: 1 }!' }}|{{ '\\${x}' }}|{{ (1..3) | join: '' }}|{{ (x..3) | size }}|{{ 1, x, 'z' | join: '-' }}",
    "A {%- if x == 1 and b or not s -%} B {%- elsif x contains 1 -%} C {%~ else +%} D {%+ endif ~%} E",
    "{% unless b %}U{% else %}V{% endunless %}{% case x %}{% when 1, 2 %}W{% when 3 or 4 %}X{% else %}Y{% endcase %}",
    "{% for i in a limit: 2 offset: 1 reversed %}{{ i }}{{ forloop.index }}{% else %}E{% endfor %}{% for i in a offset: continue %}{{ i }}{% endfor %}{% for i in (1..x) %}{% if i == 2 %}{% continue %}{% endif %}{% if i == 4 %}{% break %}{% endif %}{{ i }}{% endfor %}",
    "{% assign z = x | plus: 1 %}{{ z }}{% capture c %}-{{ z }}-{% endcapture %}{{ c }}{% increment n %}{% decrement n %}{% cycle 'a', 'b' %}{% cycle g: 1, 2 %}{% echo x | times: 2 %}",
    "{% liquid\n  assign q = x\n  # line comment\n  if q\n    echo q\n  endif\n  for i in a\n    echo i\n  endfor\n%}|{{ q }}",
    "{# c1 #}{## c #2 ##}{% # inline %}{% comment %}block {{ x }}{% endcomment %}{% raw %}{{ raw }}{% endraw %}{%- raw -%} r {%- endraw -%}!",
    "{% with p: x, q: 'w' %}{{ p }}{{ q }}{% endwith %}{% render 'p', v: x %}{% render 'p' for a as v %}{% render 'p' with x as v %}{% include 'p', v: s %}{% include 'p' for a %}",
    "{% macro m, u, w: 'd' %}<{{ u }}{{ w }}{{ args | size }}>{% endmacro %}{% call m, x %}{% call m, 1, w: s, 3 %}{% call nope %}",
    "{% extends 'base' %}{% block b %}[{{ x }}{{ block.super }}]{% endblock b %}{% block c %}C{% endblock %}",
    "{% tablerow i in a cols: 2 limit: 3 %}{{ i }}{{ tablerowloop.col }}{% endtablerow %}",
    "{% translate ctx: s, count: x, who: s %}Hi {{ who }}{% plural %}Hi all {{ who }}{% endtranslate %}{{ 'm' | t: s, plural: 'ms', count: x }}{{ 'g' | gettext }}",
    "{{ a | sort | reverse | first }}|{{ s | split: '' | uniq | join: '' }}|{{ x | at_least: 2 | at_most: 3 }}|{{ s | truncate: 2, '' }}|{{ x | json }}|{{ h | json: 1 }}",
    "{% if a.size > 1 and a[0] != a[1] %}S{% endif %}{% if s == empty or s == blank %}E{% endif %}{% if x <= 2 and x >= 0 and x < 9 and x <> 7 %}R{% endif %}{% if 'a' in s or s contains 'b' %}I{% endif %}",
    "{% if not x %}N{% endif %}{% if not (b and s) or x == 2 %}P{% endif %}{% if (x == 1 or x == 2) and b %}Q{% endif %}{% if x == 1 or b and s %}T{% endif %}",
    # the liquid tag serialises its line statements from tokens, not from the AST: every literal kind again, with the other quote inside
    "{% liquid\n echo \"it's\"\n echo 'q\"r'\n assign w = \"a' | upcase | append: 'b\"\n echo w\n echo \"x\\\"y\" | append: 'a\\'b'\n echo \"v${x}w\"\n echo 'n=${ x | plus: 1 }' | append: \"'\"\n%}",
    "{% liquid\n echo a | map: i => i | join: \"', '\"\n echo 'y' if x else \"n'\"\n for i in (1..x) reversed limit: 2\n echo o[\"a b\"]\n echo o['k'].z\n endfor\n case x\n when 1, 2\n echo \"one'two\"\n else\n echo nil\n endcase\n%}",
    "{% if s == \"a'\" or s == 'b\"' %}1{% endif %}{% assign v = \"'\" | append: '\"' %}{{ v }}{% for i in a limit: 1 %}{% cycle \"a'\", 'b\"' %}{% endfor %}{% case s %}{% when \"a'\" %}A{% endcase %}{% render 'p', v: \"'x'\" %}{% echo \"e'\" %}",    # empty blocks whose tags carry whitespace control: the tag must survive serialisation even though its block is empty
    "{% if b %}x  {%- else %}{% endif %}|{% unless b %}y  {%~ else %}{% endunless %}|{% for i in a %}z {%- else %}{% endfor %}|{% case x %}{% when 1 %}w  {%- else %}{% endcase %}|",
    "{% if b %}  {%- elsif x %}{% else %}{% endif %}|{% case x %}{% when 1 %}{% when 2 -%}  v{% endcase %}|{% if b -%}  {% endif %}|{% for i in a -%}  {% endfor %}|{% capture c -%}  {% endcapture %}[{{ c }}]|{% with q: 1 -%}  {% endwith %}|",
]
TEMPLATES = []
for _s in CORPUS:
    TEMPLATES.append(ENV.from_string(_s))


def _rt(t):
    return ENV.from_string(str(t))


ROUND1 = []
ROUND2 = []
PICKLED = []
ERRORS = []
for _i, _t in enumerate(TEMPLATES):
    try:
        r1 = _rt(_t)
        r2 = _rt(r1)
        ROUND1.append(r1)
        ROUND2.append(r2)
        PICKLED.append(pickle.loads(pickle.dumps(_t)))
        ERRORS.append(None if str(r1) == str(r2) else "str not a fixed point after one round trip")
    except Exception as _e:  # noqa: BLE001
        ROUND1.append(None)
        ROUND2.append(None)
        PICKLED.append(None)
        ERRORS.append(f"{type(_e).__name__}: {str(_e)[:200]}")


def _out(t, data: dict):
    try:
        return ("ok", t.render(**data))
    except LiquidError as e:
        return ("liquid", type(e).__name__)


@cond(
    pre=["0 <= x <= 4", "len(a) <= 2", "all(0 <= i <= 3 for i in a)", "len(s) <= 1", "all(c in 'ab ' for c in s)"],
    timeout=240,
    shard={"i": list(range(len(CORPUS)))},
    covers="str(T) parses; T, parse(str(T)), parse(str(parse(str(T)))) and pickle round trip of T render identically (same output or same error class) for all data; str() is a fixed point after one round trip",
    bounds="23 templates over the full built-in + tablerow tag set and every expression form listed in the property; x int 0..4, b bool, s str over {a b space} len <= 1, a list len <= 2 of ints 0..3, o/h hashes built from them",
    grid=lambda: [(i, x, b, a, s) for i in range(len(CORPUS)) for x in (0, 1, 3) for b in (False, True) for a in ([], [2, 1, 2]) for s in ("", "ab")],
)
def d_roundtrip(i: int, x: int, b: bool, a: List[int], s: str) -> bool:
    if ERRORS[i] is not None:
        return False
    data = {"x": x, "b": b, "a": a, "s": s, "k": "k", "o": {"k": {"z": x}, "a b": s, "it's": b}, "h": [{"k": x}, {"k": 0}, {}]}
    want = _out(TEMPLATES[i], dict(data))
    return (
        _out(ROUND1[i], dict(data)) == want
        and _out(ROUND2[i], dict(data)) == want
        and _out(PICKLED[i], dict(data)) == want
    )


@cond(pre=["0 <= x <= 4"], twin=True, timeout=60, covers="reachability twin: corpus outputs depend on the data")
def twin_roundtrip(x: int) -> bool:
    return _out(TEMPLATES[9], {"x": x})[1] == _out(ROUND1[9], {"x": 0})[1] if ROUND1[9] is not None else False
