"""C18 - whitespace control changes nothing but whitespace."""

from __future__ import annotations

import dataclasses
from io import StringIO
from typing import List

from vf.cond import cond

from .common import drive, Environment, LiquidError, concrete_int, in_alpha, untraced

from liquid2 import RenderContext  # noqa: E402
from liquid2.builtin.content import ContentNode  # noqa: E402
from liquid2.token import WhitespaceControl as WC  # noqa: E402

EXPLANATION = (
    "Compositional: (1) Environment.trim on symbolic text for all marker pairs; (2) the parser's trim carry with every "
    "marker of a shape a solver choice (tokens are rebuilt with symbolic `wc`, bypassing the lexer's regexes); (3) the "
    "render of those shapes modulo whitespace is independent of markers, default_trim and blank-block suppression."
)
OUTSIDE = [
    "literal text longer than 3 characters in the trim kernel (any unicode)",
    "more than 4 (thorough: 6) independently chosen marker positions per shape; shapes other than the 8 listed",
    "templates whose expressions inspect captured text (excluded by the property itself)",
]

MARKERS = [WC.DEFAULT, WC.MINUS, WC.TILDE, WC.PLUS]
TRIMS = [WC.PLUS, WC.MINUS, WC.TILDE]


class _NoSuppress(Environment):
    suppress_blank_control_flow_blocks = False


ENVS = {(d, s): (Environment if s else _NoSuppress)(default_trim=TRIMS[d]) for d in range(3) for s in (False, True)}
BASE = ENVS[(0, False)]


def _nows(s: str) -> str:
    return "".join(c for c in s if not c.isspace())


# ---------------------------------------------------------------------------------------
# K-C18-trim
# ---------------------------------------------------------------------------------------
def _ref_trim(text: str, el, er) -> str:
    i, j = 0, len(text)
    if el == WC.MINUS:
        while i < j and text[i].isspace():
            i += 1
    elif el == WC.TILDE:
        while i < j and text[i] in "\r\n":
            i += 1
    if er == WC.MINUS:
        while j > i and text[j - 1].isspace():
            j -= 1
    elif er == WC.TILDE:
        while j > i and text[j - 1] in "\r\n":
            j -= 1
    return text[i:j]


@cond(
    pre=["len(text) <= 3", "0 <= l < 4", "0 <= r < 4", "0 <= d < 3"],
    timeout=240,
    timeout_thorough=900,
    shard={"l": [0, 1, 2, 3], "r": [0, 1, 2, 3]},
    covers="Environment.trim(text, l, r): result is a contiguous substring, equal to text modulo whitespace, identical when both effective markers are '+', and trimmed as far as each marker demands",
    bounds="text: any unicode str, len <= 3; all 16 marker pairs x 3 default_trim values",
    grid=lambda: [(t, l, r, d) for t in ("", " a ", "\n\ta\r\n", " a ", "\r\n", " \r") for l in range(4) for r in range(4) for d in range(3)],
)
def k_trim(text: str, l: int, r: int, d: int) -> bool:
    env = ENVS[(concrete_int(d, 0, 2), True)]
    lm, rm = MARKERS[l], MARKERS[r]
    res = env.trim(text, lm, rm)
    el = env.default_trim if lm == WC.DEFAULT else lm
    er = env.default_trim if rm == WC.DEFAULT else rm
    if res not in text:
        return False
    if _nows(res) != _nows(text):
        return False
    if el == WC.PLUS and er == WC.PLUS and res != text:
        return False
    return res == _ref_trim(text, el, er)


@cond(pre=["len(text) <= 2"], twin=True, timeout=60, covers="reachability twin: trim does remove something for some text")
def twin_trim(text: str) -> bool:
    return BASE.trim(text, WC.MINUS, WC.MINUS) == text


# ---------------------------------------------------------------------------------------
# T-C18-carry / render
# ---------------------------------------------------------------------------------------
SHAPES = [
    " A\n{% if x %}\tB {% else %} \nC\r\n{% endif %} D ",
    " A {{ x }}\nB {# c #} C\t{% raw %} R {% endraw %}\r\nD ",
    "A \n{% for i in a %} B {% if x %} C {% endif %} D\n{% endfor %} E",
    " A {% case x %}{% when 1 %} B\n{% else %}\nC {% endcase %} D ",
    " A\n{% liquid\n echo x\n%}\nB {% comment %} c {% endcomment %} C ",
    "A {% capture v %} B {% endcapture %} C {{ x }} D\n",
    " A {% unless x %} B \n{% endunless %}\n C {% assign y = 1 %} D {% if x %}{% endif %} E",
    "\n{% if x %} {% if x %} \n{% assign y = 2 %} {% endif %} {% else %} {% endif %} A {% for i in a %} {% endfor %} B ",
    "[{% if x %} {% for i in u %} {% else %}none{% endfor %} {% endif %}]{% unless u %} {% case x %}{% when 2 %} {% else %}E{% endcase %} {% endunless %}",
]
TOKENS = [BASE.tokenize(s) for s in SHAPES]
NPOS = [sum(len(getattr(t, "wc", ())) for t in toks) for toks in TOKENS]


def _with_markers(shape: int, choice: list[int]):
    """Rebuild the shape's tokens with marker k := MARKERS[choice[k % len(choice)]]."""
    out = []
    k = 0
    for t in TOKENS[shape]:
        wc = getattr(t, "wc", None)
        if wc is None:
            out.append(t)
            continue
        new = []
        for _ in wc:
            new.append(MARKERS[choice[k % len(choice)]])
            k += 1
        out.append(dataclasses.replace(t, wc=tuple(new)))
    return out


def _content_nodes(nodes) -> list:
    found = []

    def walk(n):  # type: ignore[no-untyped-def]
        if isinstance(n, ContentNode):
            found.append(n)
        try:
            kids = list(n.children(None, include_partials=False))
        except Exception:  # noqa: BLE001
            kids = []
        for k in kids:
            walk(k)

    for n in nodes:
        walk(n)
    found.sort(key=lambda n: n.token.start)
    return found


def _expected(env, toks) -> dict[int, tuple]:
    exp = {}
    for i, t in enumerate(toks):
        if hasattr(t, "wc") or not hasattr(t, "text"):
            continue
        prev = toks[i - 1] if i > 0 else None
        nxt = toks[i + 1] if i + 1 < len(toks) else None
        l = prev.wc[-1] if prev is not None and hasattr(prev, "wc") else WC.DEFAULT
        r = nxt.wc[0] if nxt is not None and hasattr(nxt, "wc") else WC.DEFAULT
        exp[t.start] = (l, r)
    return exp


def _eff(env, m):
    return env.default_trim if m == WC.DEFAULT else m


def _render(env, nodes, x, a) -> str:
    t = env.template_class(env, nodes)
    return t.render(x=x, a=a)


REFS = {
    (s, x, n): _render(BASE, BASE.parser.parse(_with_markers(s, [3])), x, [1, 2][:n])
    for s in range(len(SHAPES))
    for x in (False, True)
    for n in (0, 1, 2)
}


def _shape_ok(shape: int, choice: list[int], d: int, sup: bool, x: bool, n: int) -> bool:
    env = ENVS[(d, sup)]
    toks = _with_markers(shape, choice)
    try:
        nodes = env.parser.parse(toks)
    except LiquidError:
        return False
    exp = _expected(env, toks)
    seen = 0
    for node in _content_nodes(nodes):
        want = exp.get(node.token.start)
        if want is None:
            return False
        seen += 1
        if _eff(env, node.left_trim) != _eff(env, want[0]) or _eff(env, node.right_trim) != _eff(env, want[1]):
            return False
    if seen != len(exp):
        return False
    a = [1, 2][:n]
    try:
        out = _render(env, nodes, x, a)
    except LiquidError:
        return False
    ref = REFS[(shape, bool(x), n)]
    # whitespace-insensitive equality with the untrimmed, unsuppressed render
    return _nows(out) == _nows(ref)


@cond(
    pre=["0 <= m1 < 4", "0 <= m2 < 4", "0 <= d < 3"],
    timeout=200,
    tiers=("quick",),
    shard={"shape": list(range(len(SHAPES))), "m0": [0, 1, 2, 3]},
    covers="for every marker assignment: each ContentNode's left/right trim equals the adjacent markup's right/left marker (carry through blocks, else/when arms, comments, raw, liquid tag), and the render modulo whitespace equals the untrimmed render",
    bounds="9 shapes; 3 independently chosen markers assigned cyclically to all marker positions (4^3 assignments) x default_trim x suppression flag x data (x bool, list len 0 or 2)",
    stubs=("tokens are rebuilt with symbolic `wc` tuples via dataclasses.replace (bypasses the lexer's regexes)",),
    grid=lambda: [(s, a, b, a, d, sup, True, True) for s in range(len(SHAPES)) for a in range(4) for b in (0, 1) for d in range(3) for sup in (False, True)],
)
def t_shape3(shape: int, m0: int, m1: int, m2: int, d: int, sup: bool, x: bool, two: bool) -> bool:
    choice = [m0, concrete_int(m1, 0, 3), concrete_int(m2, 0, 3)]
    d, sup, x, n = concrete_int(d, 0, 2), bool(sup), bool(x), (2 if two else 0)
    # markers, configuration and data are concrete from here on: the real parser and renderer run outside the tracer
    return untraced(lambda: _shape_ok(shape, choice, d, sup, x, n))


@cond(
    pre=["0 <= m0 < 4", "0 <= m1 < 4", "0 <= m2 < 4", "0 <= m3 < 4", "0 <= d < 3", "0 <= n <= 2"],
    timeout=600,
    shard={"shape": list(range(len(SHAPES))), "m0": [0, 1, 2, 3]},
    covers="for every marker assignment: each ContentNode's left/right trim equals the adjacent markup's right/left marker (carry through blocks, else/when arms, comments, raw, liquid tag), and the render modulo whitespace equals the untrimmed render",
    bounds="9 shapes; 4 independently chosen markers assigned cyclically to all marker positions (4^4 assignments) x default_trim x suppression flag x data (x bool, list len 0..2)",
    stubs=("tokens are rebuilt with symbolic `wc` tuples via dataclasses.replace (bypasses the lexer's regexes)",),
    grid=lambda: [(s, a, b, b, a, d, sup, True, 2) for s in range(len(SHAPES)) for a in range(4) for b in (0, 1) for d in range(3) for sup in (False, True)],
)
def t_shape(shape: int, m0: int, m1: int, m2: int, m3: int, d: int, sup: bool, x: bool, n: int) -> bool:
    choice = [m0, concrete_int(m1, 0, 3), concrete_int(m2, 0, 3), concrete_int(m3, 0, 3)]
    d, sup, x, n = concrete_int(d, 0, 2), bool(sup), bool(x), concrete_int(n, 0, 2)
    return untraced(lambda: _shape_ok(shape, choice, d, sup, x, n))


@cond(
    pre=["0 <= m1 < 4", "0 <= m2 < 4", "0 <= m3 < 4", "0 <= m4 < 4", "0 <= m5 < 4", "0 <= d < 3"],
    timeout=900,
    tiers=("thorough",),
    shard={"shape": list(range(len(SHAPES))), "m0": [0, 1, 2, 3]},
    covers="as t_shape with 6 independently chosen markers (4^6 assignments per shape)",
    bounds="9 shapes x 4^6 marker assignments x default_trim x suppression",
)
def t_shape6(shape: int, m0: int, m1: int, m2: int, m3: int, m4: int, m5: int, d: int, sup: bool) -> bool:
    choice = [m0] + [concrete_int(m, 0, 3) for m in (m1, m2, m3, m4, m5)]
    d, sup = concrete_int(d, 0, 2), bool(sup)
    return untraced(lambda: _shape_ok(shape, choice, d, sup, True, 2))


@cond(pre=["0 <= m1 < 4"], twin=True, timeout=60, covers="reachability twin: markers do change the exact output")
def twin_shape(m1: int) -> bool:
    toks = _with_markers(0, [concrete_int(m1, 0, 3)])
    out = _render(BASE, BASE.parser.parse(toks), True, [])
    return out == _render(BASE, BASE.parser.parse(_with_markers(0, [3])), True, [])


# ---------------------------------------------------------------------------------------
# D-C18-blank: a block flagged blank writes only whitespace, for all data
# ---------------------------------------------------------------------------------------
BLANKS = [
    "{% if x %} \n{% assign y = 1 %}\t{% endif %}",
    "{% unless x %} {% capture z %}A{% endcapture %} {% endunless %}",
    "{% for i in a %} {% if i == n %}{% break %}{% endif %} {% else %} \n {% endfor %}",
    "{% case n %}{% when 1 %} {% when 2 %}\n{% else %}\t{% endcase %}",
    "{% if x %}{# c #} {% comment %}A{% endcomment %}{% elsif n == 1 %} {% else %} {% endif %}",
    "{% if x %} {% increment c %} {% endif %}",
    "{% if x %} {% cycle 'a', 'b' %} {% endif %}",
    "{% if x %} {% echo n %} {% endif %}",
    "{% if x %} {% liquid\n assign q = 1\n%} {% endif %}",
    "{% if x %} {% raw %} {% endraw %} {% endif %}",
    "{% if x %} {% raw %}R{% endraw %} {% endif %}",
    "{% with p: n %} {% endwith %}",
    "{% if x %} {{ '' }} {% endif %}",
    "{% if x %} {% for i in a %} {% else %}none{% endfor %} {% endif %}|{% unless x %} {% for i in a %}\n{% else %}E{% endfor %}{% endunless %}",
    "{% if x %} {% case n %}{% when 1 %} {% else %}other{% endcase %} {% endif %}|{% if x %} {% if n == 1 %} {% elsif n == 2 %}two{% else %} {% endif %} {% endif %}",
    "{% for i in a %} {% unless x %} {% else %}U{% endunless %} {% endfor %}|{% with q: n %} {% if x %}{% else %}W{% endif %} {% endwith %}|{% if x %} {% capture c %}C{% endcapture %} {{ c }}{% endif %}",
]
_ENV_NS = ENVS[(0, False)]
BLANK_T = [_ENV_NS.from_string(s) for s in BLANKS]


def _all_nodes(nodes) -> list:
    out = []

    def walk(n):  # type: ignore[no-untyped-def]
        out.append(n)
        try:
            kids = list(n.children(None, include_partials=False))
        except Exception:  # noqa: BLE001
            kids = []
        for k in kids:
            walk(k)

    for n in nodes:
        walk(n)
    return out


@cond(
    pre=["0 <= i < len(BLANKS)", "-1 <= n <= 3", "len(a) <= 2", "all(0 <= k <= 3 for k in a)"],
    timeout=200,
    shard={"i": list(range(len(BLANKS)))},
    covers="every node whose `blank` flag is set writes nothing but whitespace for all data (so suppression can only remove whitespace), through render and render_async",
    bounds="16 programs covering if/unless/for/case/with arms with assign, capture, comments, raw, cycle, increment, echo, liquid, output; x bool, n in -1..3, list len <= 2",
    grid=lambda: [(i, x, n, [1, 2], s) for i in range(len(BLANKS)) for x in (False, True) for n in (0, 1, 2) for s in (False, True)],
)
def d_blank(i: int, x: bool, n: int, a: List[int], is_async: bool) -> bool:
    t = BLANK_T[i]
    for node in _all_nodes(t.nodes):
        if not node.blank:
            continue
        buf = StringIO()
        ctx = RenderContext(t, global_data={"x": x, "n": n, "a": a})
        try:
            if is_async:
                drive(node.render_async(ctx, buf))
            else:
                node.render(ctx, buf)
        except LiquidError:
            continue
        except Exception as e:  # noqa: BLE001
            if type(e).__name__ in ("BreakLoop", "ContinueLoop", "StopRender"):
                continue
            return False
        out = buf.getvalue()
        if out and not out.isspace():
            return False
    return True


# ---- blank-block suppression must not change what the block's side effects produce later --------------
SIDE = [
    "{% if x %} {% capture z %}A{{ n }}{% endcapture %} {% endif %}[{{ z }}]",
    "{% unless x %}\n{% assign y = n %}\n{% endunless %}[{{ y }}]",
    "{% for i in a %} {% capture z %}{{ z }}{{ i }}{% endcapture %} {% endfor %}[{{ z }}]",
    "{% case n %}{% when 1 %} {% capture z %}one{% endcapture %}{% else %} {% assign z = 'else' %} {% endcase %}[{{ z }}]",
    "{% if x %} {% increment c %} {% endif %}[{% increment c %}]{% if x %} {% cycle 'a', 'b' %} {% endif %}[{% cycle 'a', 'b' %}]",
    "{% with p: n %} {% capture z %}{{ p }}{% endcapture %} {% endwith %}[{{ z }}]",
    "{% if x %} {% for i in a %} {% capture z %}L{{ i }}{% endcapture %} {% endfor %} {% endif %}[{{ z }}]",
    "{% if x %}{% capture z %}{% capture w %}in{% endcapture %}o{{ w }}{% endcapture %}{% endif %}[{{ z }}{{ w }}]",
    "{% if x %} {% capture z %}{% render 'p', v: n %}{% endcapture %} {% endif %}[{{ z }}]{% unless x %} {% capture u %}{% include 'p' %}{% endcapture %} {% endunless %}[{{ u }}]",
    "{% if x %} {% macro m %}M{{ n }}{% endmacro %} {% endif %}[{% call m %}]{% if x %} {% capture z %}{% call m %}{% endcapture %} {% endif %}[{{ z }}]",
]
_SIDE_LOADER = __import__("liquid2").DictLoader({"p": "({{ v }}{{ n }})"})


class _SideOn(Environment):
    suppress_blank_control_flow_blocks = True


class _SideOff(Environment):
    suppress_blank_control_flow_blocks = False


SIDE_ON = [_SideOn(loader=_SIDE_LOADER).from_string(s) for s in SIDE]
SIDE_OFF = [_SideOff(loader=_SIDE_LOADER).from_string(s) for s in SIDE]
for _t in SIDE_ON + SIDE_OFF:
    try:
        _t.render(x=True, n=1, a=[1])
    except Exception:  # noqa: BLE001
        pass


def _squash(s: str) -> str:
    return "".join(s.split())


@cond(
    pre=["-1 <= n <= 3", "len(a) <= 2", "all(0 <= k <= 3 for k in a)"],
    timeout=200,
    shard={"i": list(range(len(SIDE))), "is_async": [False, True]},
    covers="blank-block suppression removes nothing but whitespace also *later*: what a suppressed block captured, assigned, counted, cycled or defined (macro) is printed after the block exactly as without suppression - through render() and render_async()",
    bounds="10 programs (capture/assign/increment/cycle/macro inside if, unless, for, case, with and nested blocks; captures of partial renders and macro calls); x bool, n in -1..3, list len <= 2",
    grid=lambda: [(i, s, x, n, [1, 2]) for i in range(len(SIDE)) for s in (False, True) for x in (False, True) for n in (0, 1, 2)],
)
def d_suppress_effects(i: int, is_async: bool, x: bool, n: int, a: List[int]) -> bool:
    outs = []
    for t in (SIDE_ON[i], SIDE_OFF[i]):
        try:
            outs.append(("ok", _squash(drive(t.render_async(x=x, n=n, a=a)) if is_async else t.render(x=x, n=n, a=a))))
        except LiquidError as e:
            outs.append(("err", type(e).__name__))
    return outs[0] == outs[1]
