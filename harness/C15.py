"""C15 - message extraction covers every catalog lookup a render can make."""

from __future__ import annotations

from typing import List, Union

from vf.cond import cond

from .common import drive, Environment, LiquidError, concrete_int

from liquid2.messages import extract_from_template  # noqa: E402

EXPLANATION = (
    "A recording Translations double logs every catalog lookup during a render whose count values, contexts and branch "
    "conditions are solver variables; every logged lookup with literal operands must be in the static extraction with "
    "the same gettext family and line number."
)
OUTSIDE = [
    "messages with non-literal operands (the property excludes them); tail filters (`||`) applied to a ternary's result",
    "a `plural:` argument without any `count:` (template-author error; extraction and runtime disagree by design)",
    "programs other than the 16 corpus templates",
]

ENV = Environment()


class Rec:
    """A gettext-style catalog that records what is asked of it."""

    def __init__(self) -> None:
        self.calls: list[tuple] = []

    def gettext(self, m):  # type: ignore[no-untyped-def]
        self.calls.append(("gettext", None, str(m), None))
        return m

    def ngettext(self, s, p, n):  # type: ignore[no-untyped-def]
        self.calls.append(("ngettext", None, str(s), str(p)))
        return s if n == 1 else p

    def pgettext(self, c, m):  # type: ignore[no-untyped-def]
        self.calls.append(("pgettext", str(c), str(m), None))
        return m

    def npgettext(self, c, s, p, n):  # type: ignore[no-untyped-def]
        self.calls.append(("npgettext", str(c), str(s), str(p)))
        return s if n == 1 else p


CORPUS = [
    "",
    "{# just a comment #}\n{% comment %}x{% endcomment %}",
    "{{ 'A1' | t }}\n{% assign v = 'A2' | gettext %}\n\n{% echo 'A3' | t: 'ctx3' %}",
    "{# Translators: note #}\n{{ 'A4' | t: plural: 'B4', count: n }}\n{{ 'A5' | ngettext: 'B5', n }}",
    "{{ 'A6' | pgettext: 'c6' }}{{ 'A7' | npgettext: 'c7', 'B7', n }}\n{{ 'A8' | t: 'c8', plural: 'B8', count: n }}",
    "{{ 'A9' | t if x else 'C9' | t }}\n{{ 'A10' | t: count: n }}",
    "{% if x %}\n{{ 'A11' | t }}\n{% else %}\n{% for i in (1..2) %}{{ 'A12' | gettext }}{% endfor %}\n{% endif %}",
    "{% liquid\n  echo 'A13' | t\n  assign w = 'A14' | t: 'c14'\n%}",
    "{% translate %}Hello{% endtranslate %}\n{% translate count: n %}One{% plural %}Many{% endtranslate %}",
    "{% translate context: 'cx' %}Ctx{% endtranslate %}\n\n{% translate context: 'cy', count: n %}S{% plural %}P{% endtranslate %}",
    "{# Translators: far #}\n\n\n{{ 'A15' | t }}\n{% # Translators: near %}\n{{ 'A16' | t }}{{ 'A17' | t }}",
    "{% if x %}{% translate you: y %}Hi {{ you }}{% endtranslate %}{% endif %}\n{{ y | t }}{{ \"${'A18' | t}\" }}",
    "{% unless x %}{% translate count: n %}U{% plural %}V{% endtranslate %}{% endunless %}{% case n %}{% when 1 %}{{ 'A19' | t: plural: 'B19', count: n }}{% else %}{{ 'A20' | t }}{% endcase %}",
    "{{ 'A23' | t if x }}\n{{ 'A24' | t: 'c24' if x else '' }}\n{% assign m = 'A25' | t: plural: 'B25', count: n if x else n %}{{ m }}\n{% echo 'A26' | gettext if x else 'z' || upcase %}",
    "{{ 'A27' | t if x else y }}{{ y if x else 'A28' | t }}\n{{ 'A29' | pgettext: 'c29' if x else y | upcase }}{{ 'A30' | ngettext: 'B30', n if x }}",
    "{% comment %}Translators: block{% endcomment %}\n{% translate %}K{% endtranslate %}{% capture c %}{{ 'A21' | t }}{% endcapture %}{% with q: n %}{{ 'A22' | t: plural: 'B22', count: q }}{% endwith %}",
]
TEMPLATES = [ENV.from_string(s) for s in CORPUS]


def _line_of(src: str, needle: str) -> int:
    i = src.find(needle)
    return src.count("\n", 0, i) + 1 if i >= 0 else -1


def _extracted(i: int):
    out = []
    for lineno, funcname, message, comments in extract_from_template(TEMPLATES[i]):
        msgs = list(message) if isinstance(message, (list, tuple)) else [message]
        ctx = None
        if msgs and isinstance(msgs[0], tuple):
            ctx = msgs[0][0]
            msgs = msgs[1:]
        out.append((funcname, ctx, msgs[0] if msgs else None, msgs[1] if len(msgs) > 1 else None, lineno, list(comments)))
    return out


EXTRACTED = []
for _i in range(len(CORPUS)):
    try:
        EXTRACTED.append(_extracted(_i))
    except Exception as _e:  # noqa: BLE001  extraction must never fail on a template that parses
        EXTRACTED.append(None)

N = Union[int, str, None, bool, List[int]]


@cond(
    pre=["not isinstance(n, str) or (len(n) == 1 and n in '0123x.')", "isinstance(n, bool) or not isinstance(n, int) or -2 <= n <= 3", "not isinstance(n, list) or (len(n) <= 1 and all(0 <= k <= 1 for k in n))"],
    timeout=200,
    shard={"i": list(range(len(CORPUS)))},
    covers="every (family, context, singular, plural) looked up at run time for literal operands (by render() or render_async()) appears in extract_from_template() with the same family and the line of the originating tag/expression; extraction does not raise (empty and comment-only templates included); translator comments attach only to a message on the comment's own or next line",
    bounds="16 templates: t/gettext/ngettext/pgettext/npgettext filters in output, assign, echo, ternary branches, if/for/unless/case/with/capture bodies, liquid tag lines, template strings; translate/plural blocks with count and context; count n: int -2..3 | 1-character str over {0 1 2 3 x .} (numeric and non-numeric) | nil | bool | list of <= 1 int; branch condition x: bool",
    grid=lambda: [(i, n, x, a) for i in range(len(CORPUS)) for n in (0, 1, 2, -1, "0", "2", "x", ".", None, True, False, [], [1]) for x in (False, True) for a in (False, True)],
)
def d_cover(i: int, n: N, x: bool, is_async: bool) -> bool:
    ext = EXTRACTED[i]
    if ext is None:
        return False
    rec = Rec()
    try:
        if is_async:
            drive(TEMPLATES[i].render_async(translations=rec, n=n, x=x, y="data"))
        else:
            TEMPLATES[i].render(translations=rec, n=n, x=x, y="data")
    except LiquidError:
        pass
    src = CORPUS[i]
    for fam, ctx, s, p in rec.calls:
        if s == "data":
            continue  # non-literal operand
        line = _line_of(src, s.split(" ")[0])
        if not any(e[0] == fam and e[1] == ctx and e[2] is not None and e[2].split(" ")[0].replace("%(you)s", "") == s.split(" ")[0] and e[3] == p and e[4] == line for e in ext):
            return False
    for e in ext:
        if e[5]:
            cl = min(_line_of(src, "Translators: " + c.split("Translators: ")[-1]) for c in e[5])
            if not (0 <= e[4] - cl <= 1):
                return False
    return True


@cond(pre=["-2 <= n <= 3"], twin=True, timeout=60, covers="reachability twin: catalog lookups are recorded")
def twin_cover(n: int) -> bool:
    rec = Rec()
    TEMPLATES[8].render(translations=rec, n=n)
    return not rec.calls
