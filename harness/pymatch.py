"""Pure-Python stand-ins for the lexer's *simple* compiled patterns.

CrossHair's regex model is unsound for this lexer (section 2 of DESIGN.md), so a symbolic string
may never reach `re`.  The character-class patterns used inside tags and output statements are
regular and small enough to be re-implemented as plain loops, which CrossHair executes
symbolically.  Each stand-in is validated against the real compiled pattern natively and
exhaustively on all strings up to length 4 over the harness alphabet (`validate()` below, run by
the native grid), and the harness reads the pattern *source text* from the Lexer class at import so
that a change of the real pattern makes the validation fail rather than go unnoticed.
"""

from __future__ import annotations

from typing import Optional


class M:
    """Minimal match object."""

    def __init__(self, source: str, pos: int, end: int, lastgroup: Optional[str] = None, groups: tuple = ()):
        self._s, self._pos, self._end, self.lastgroup, self._groups = source, pos, end, lastgroup, groups

    def group(self, n=0):  # type: ignore[no-untyped-def]
        if n == 0:
            return self._s[self._pos : self._end]
        return self._groups[n - 1]

    def start(self) -> int:
        return self._pos

    def end(self) -> int:
        return self._end


def _at(s: str, i: int) -> str:
    return s[i] if 0 <= i < len(s) else ""


def _digits(s: str, i: int) -> int:
    j = i
    while _at(s, j) != "" and _at(s, j) in "0123456789":
        j += 1
    return j


class Whitespace:
    chars = " \n\r\t"

    def match(self, source: str, pos: int = 0):  # type: ignore[no-untyped-def]
        j = pos
        while _at(source, j) != "" and _at(source, j) in self.chars:
            j += 1
        return M(source, pos, j) if j > pos else None


class LineSpace(Whitespace):
    chars = " \t"


class End:
    """([+\\-~]?)<closer>  e.g. closer = '}}' or '%}'."""

    def __init__(self, closer: str):
        self.closer = closer

    def match(self, source: str, pos: int = 0):  # type: ignore[no-untyped-def]
        c = _at(source, pos)
        if c != "" and c in "+-~":
            if source[pos + 1 : pos + 1 + len(self.closer)] == self.closer:
                return M(source, pos, pos + 1 + len(self.closer), groups=(c,))
        if source[pos : pos + len(self.closer)] == self.closer:
            return M(source, pos, pos + len(self.closer), groups=("",))
        return None


def _is_word_start(c: str) -> bool:
    return c != "" and (c == "_" or "a" <= c <= "z" or "A" <= c <= "Z" or "\u0080" <= c <= "￿")


def _is_word_char(c: str) -> bool:
    return c != "" and (_is_word_start(c) or "0" <= c <= "9" or c == "-")


class Word:
    def match(self, source: str, pos: int = 0):  # type: ignore[no-untyped-def]
        if not _is_word_start(_at(source, pos)):
            return None
        j = pos + 1
        while _is_word_char(_at(source, j)):
            j += 1
        return M(source, pos, j)


class Index:
    def match(self, source: str, pos: int = 0):  # type: ignore[no-untyped-def]
        i = pos + 1 if _at(source, pos) == "-" else pos
        j = _digits(source, i)
        return M(source, pos, j) if j > i else None


SYMBOLS = [
    ("ARROW", "=>"), ("GE", ">="), ("LE", "<="), ("EQ", "=="), ("NE", "!="), ("LG", "<>"), ("GT", ">"), ("LT", "<"),
    ("DOUBLE_DOT", ".."), ("DOUBLE_PIPE", "||"), ("ASSIGN", "="), ("LPAREN", "("), ("RPAREN", ")"),
    ("SINGLE_QUOTE_STRING", "'"), ("DOUBLE_QUOTE_STRING", '"'), ("COLON", ":"), ("COMMA", ","), ("PIPE", "|"),
    ("LBRACKET", "["), ("EXCLAIM", "!"), ("QUESTION", "?"),
]


class TokenRules:
    """FLOAT | INT | symbols (in declaration order) | WORD, with the regex's backtracking behaviour."""

    def match(self, source: str, pos: int = 0):  # type: ignore[no-untyped-def]
        s = source
        i = pos + 1 if _at(s, pos) == "-" else pos
        j = _digits(s, i)
        if j > i:
            # FLOAT alternative 1: digits '.' digits [exponent]
            if _at(s, j) == ".":
                k = _digits(s, j + 1)
                if k > j + 1:
                    end = k
                    if _at(s, k) != "" and _at(s, k) in "eE":
                        e = k + 1
                        if _at(s, e) != "" and _at(s, e) in "+-":
                            e += 1
                        e2 = _digits(s, e)
                        if e2 > e:
                            end = e2
                    return M(s, pos, end, "FLOAT")
            # FLOAT alternative 2: digits [eE] '-' digits
            if _at(s, j) != "" and _at(s, j) in "eE" and _at(s, j + 1) == "-":
                k = _digits(s, j + 2)
                if k > j + 2:
                    return M(s, pos, k, "FLOAT")
            # INT: digits [ [eE] '+'? digits ]
            end = j
            if _at(s, j) != "" and _at(s, j) in "eE":
                e = j + 1
                if _at(s, e) == "+":
                    e += 1
                e2 = _digits(s, e)
                if e2 > e:
                    end = e2
            return M(s, pos, end, "INT")
        for name, text in SYMBOLS:
            if s[pos : pos + len(text)] == text:
                return M(s, pos, pos + len(text), name)
        w = Word().match(s, pos)
        if w is not None:
            return M(s, pos, w.end(), "WORD")
        return None


def install(lexer_cls):
    """Return a subclass of the real Lexer whose simple patterns are the stand-ins."""

    class PyLexer(lexer_cls):  # type: ignore[misc, valid-type]
        RE_WHITESPACE = Whitespace()
        RE_LINE_SPACE = LineSpace()
        RE_OUTPUT_END = End("}}")
        RE_TAG_END = End("%}")
        RE_PROPERTY = Word()
        RE_INDEX = Index()
        TOKEN_RULES = TokenRules()

    return PyLexer


def validate(lexer_cls, alphabet: str, max_len: int) -> Optional[str]:
    """Compare every stand-in with the real pattern on all strings over `alphabet` up to max_len, at every position."""
    import itertools

    pairs = [
        ("RE_WHITESPACE", Whitespace()), ("RE_LINE_SPACE", LineSpace()), ("RE_OUTPUT_END", End("}}")), ("RE_TAG_END", End("%}")),
        ("RE_PROPERTY", Word()), ("RE_INDEX", Index()), ("TOKEN_RULES", TokenRules()),
    ]
    for n in range(max_len + 1):
        for tup in itertools.product(alphabet, repeat=n):
            s = "".join(tup)
            for pos in range(len(s) + 1):
                for name, mine in pairs:
                    real = getattr(lexer_cls, name).match(s, pos)
                    got = mine.match(s, pos)
                    if (real is None) != (got is None):
                        return f"{name} on {s!r}@{pos}: real={real} mine={got}"
                    if real is not None:
                        if real.end() != got.end() or real.group() != got.group():
                            return f"{name} on {s!r}@{pos}: real={real.group()!r} mine={got.group()!r}"
                        if name == "TOKEN_RULES" and real.lastgroup != got.lastgroup:
                            return f"{name} on {s!r}@{pos}: kind real={real.lastgroup} mine={got.lastgroup}"
                        if name in ("RE_OUTPUT_END", "RE_TAG_END") and real.group(1) != got.group(1):
                            return f"{name} on {s!r}@{pos}: group real={real.group(1)!r} mine={got.group(1)!r}"
    return None


# ---------------------------------------------------------------------------------------------
# MARKUP_RULES: the top-level alternation (RAW | COMMENT_TAG | OUTPUT | TAG | COMMENT | INLINE_COMMENT | CONTENT)
# ---------------------------------------------------------------------------------------------
class NM(M):
    """Match object with named groups."""

    def __init__(self, source: str, pos: int, end: int, lastgroup: str, named: dict):
        super().__init__(source, pos, end, lastgroup)
        self._named = named

    def group(self, n=0):  # type: ignore[no-untyped-def]
        if n == 0:
            return self._s[self._pos : self._end]
        return self._named.get(n)


_WCS = "-+~"
_WS = " \t\n\r\x0b\x0c"


def _is_ws(c: str) -> bool:
    # \s for str patterns: ASCII whitespace plus the unicode separators CPython counts as space
    return c != "" and (c in _WS or c in "\x1c\x1d\x1e\x1f\x85\xa0" or c.isspace())


def _skip_ws(s: str, i: int) -> int:
    while _is_ws(_at(s, i)):
        i += 1
    return i


def _opt_wc(s: str, i: int) -> list:
    """Positions/values for a greedy optional marker `[\\-+~]?`: marker first, then empty."""
    c = _at(s, i)
    if c != "" and c in _WCS:
        return [(i + 1, c), (i, "")]
    return [(i, "")]


def _name_end(s: str, i: int) -> int:
    c = _at(s, i)
    if not (c != "" and "a" <= c <= "z"):
        return i
    j = i + 1
    while _at(s, j) != "" and ("a" <= _at(s, j) <= "z" or "0" <= _at(s, j) <= "9" or _at(s, j) == "_"):
        j += 1
    return j


def _is_wordch(c: str) -> bool:
    return c != "" and (c.isalnum() or c == "_")


def _close_tag(s: str, i: int, word: str):
    """Match `\\{%[wc]?\\s*<word>\\s*[wc]?%\\}` at i; return (end, wc_a, wc_b) or None."""
    if s[i : i + 2] != "{%":
        return None
    for p1, wa in _opt_wc(s, i + 2):
        # \s* is greedy but may give characters back
        q = _skip_ws(s, p1)
        for p2 in range(q, p1 - 1, -1):
            if s[p2 : p2 + len(word)] != word:
                continue
            p3 = p2 + len(word)
            q2 = _skip_ws(s, p3)
            for p4 in range(q2, p3 - 1, -1):
                for p5, wb in _opt_wc(s, p4):
                    if s[p5 : p5 + 2] == "%}":
                        return (p5 + 2, wa, wb)
    return None


class MarkupRules:
    def match(self, source: str, pos: int = 0):  # type: ignore[no-untyped-def]
        s = source
        n = len(s)
        if pos >= n:
            return None
        two = s[pos : pos + 2]
        if two == "{%":
            # RAW
            open_ = _close_tag(s, pos, "raw")
            if open_ is not None:
                e0, w0, w1 = open_
                k = e0
                while k <= n:
                    close = _close_tag(s, k, "endraw")
                    if close is not None:
                        e1, w2, w3 = close
                        return NM(s, pos, e1, "RAW", {"RAW_WC0": w0, "RAW_WC1": w1, "RAW_TEXT": s[e0:k], "RAW_WC2": w2, "RAW_WC3": w3})
                    k += 1
            # COMMENT_TAG: \{%[wc]?\s*comment\b.*?%\}
            for p1, wa in _opt_wc(s, pos + 2):
                q = _skip_ws(s, p1)
                done = False
                for p2 in range(q, p1 - 1, -1):
                    if s[p2 : p2 + 7] == "comment" and not _is_wordch(_at(s, p2 + 7)):
                        k = s.find("%}", p2 + 7)
                        if k >= 0:
                            return NM(s, pos, k + 2, "COMMENT_TAG", {"CT_WC": wa})
                        done = True
                        break
                if done:
                    break
        if two == "{{":
            p1, wa = _opt_wc(s, pos + 2)[0]
            return NM(s, pos, _skip_ws(s, p1), "OUTPUT", {"OUT_WC": wa})
        if two == "{%":
            # TAG: \{%[wc]?\s*name
            for p1, wa in _opt_wc(s, pos + 2):
                q = _skip_ws(s, p1)
                for p2 in range(q, p1 - 1, -1):
                    e = _name_end(s, p2)
                    if e > p2:
                        return NM(s, pos, e, "TAG", {"TAG_WC": wa, "TAG_NAME": s[p2:e]})
        if two == "{#":
            # COMMENT: \{(#+)[wc]?(.*?)[wc]?\1\}
            h = pos + 1
            while _at(s, h) == "#":
                h += 1
            for hashes_end in range(h, pos + 1, -1):  # greedy, gives hashes back
                hashes = s[pos + 1 : hashes_end]
                closer = hashes + "}"
                for p1, w0 in _opt_wc(s, hashes_end):
                    for e in range(p1, n + 1):  # lazy text
                        for p2, w1 in _opt_wc(s, e):
                            if s[p2 : p2 + len(closer)] == closer:
                                return NM(s, pos, p2 + len(closer), "COMMENT", {"HASHES": hashes, "COMMENT_WC0": w0, "COMMENT_TEXT": s[p1:e], "COMMENT_WC1": w1})
        if two == "{%":
            # INLINE_COMMENT: \{%[wc]?\s*#(.*?)[wc]?%\}
            for p1, w0 in _opt_wc(s, pos + 2):
                q = _skip_ws(s, p1)
                for p2 in range(q, p1 - 1, -1):
                    if _at(s, p2) != "#":
                        continue
                    for e in range(p2 + 1, n + 1):
                        for p3, w1 in _opt_wc(s, e):
                            if s[p3 : p3 + 2] == "%}":
                                return NM(s, pos, p3 + 2, "INLINE_COMMENT", {"ILC_WC0": w0, "ILC_TEXT": s[p2 + 1 : e], "ILC_WC1": w1})
        # CONTENT: .+?(?=(\{\{|\{%|\{#+|$))
        for e in range(pos + 1, n + 1):
            nxt = s[e : e + 2]
            if nxt in ("{{", "{%", "{#") or e == n or (e == n - 1 and s[e] == "\n"):
                return NM(s, pos, e, "CONTENT", {})
        return None


def install_full(lexer_cls):
    """PyLexer plus the top-level markup pattern."""
    base = install(lexer_cls)

    class FullPyLexer(base):  # type: ignore[misc, valid-type]
        MARKUP_RULES = MarkupRules()

    return FullPyLexer


def validate_markup(lexer_cls, alphabet, max_len: int) -> Optional[str]:
    """`alphabet` is a string of characters or a list of multi-character pieces."""
    import itertools

    mine = MarkupRules()
    real_p = lexer_cls.MARKUP_RULES
    names = list(real_p.groupindex)
    for n in range(max_len + 1):
        for tup in itertools.product(alphabet, repeat=n):
            s = "".join(tup)
            for pos in range(len(s) + 1):
                real = real_p.match(s, pos)
                got = mine.match(s, pos)
                if (real is None) != (got is None):
                    return f"MARKUP_RULES on {s!r}@{pos}: real={real} mine={got}"
                if real is None:
                    continue
                if real.end() != got.end() or real.lastgroup != got.lastgroup:
                    return f"MARKUP_RULES on {s!r}@{pos}: real=({real.lastgroup},{real.group()!r}) mine=({got.lastgroup},{got.group()!r})"
                for g in names:
                    rv = real.group(g)
                    if g != real.lastgroup and rv is not None and rv != got.group(g):
                        return f"MARKUP_RULES group {g} on {s!r}@{pos}: real={rv!r} mine={got.group(g)!r}"
    return None


# ---------------------------------------------------------------------------------------------
# patterns of the liquid-tag and block-comment states
# ---------------------------------------------------------------------------------------------
class TagName:
    """[a-z][a-z_0-9]*\\b"""

    def match(self, source: str, pos: int = 0):  # type: ignore[no-untyped-def]
        e = _name_end(source, pos)
        if e == pos or _is_wordch(_at(source, e)):
            return None
        return M(source, pos, e)


class LineTerm:
    def match(self, source: str, pos: int = 0):  # type: ignore[no-untyped-def]
        if _at(source, pos) == "\n":
            return M(source, pos, pos + 1)
        if _at(source, pos) == "\r" and _at(source, pos + 1) == "\n":
            return M(source, pos, pos + 2)
        return None


def _line_rest_end(s: str, i: int):
    """End of the lazy `(.*?)` followed by the lookahead (\\n | [wc]?%}); None if there is none."""
    e = i
    while e <= len(s):
        c = _at(s, e)
        if c == "\n":
            return e
        if s[e : e + 2] == "%}":
            return e
        if c != "" and c in _WCS and s[e + 1 : e + 3] == "%}":
            return e
        if c == "":
            return None
        e += 1
    return None


class RestOfLine:
    def match(self, source: str, pos: int = 0):  # type: ignore[no-untyped-def]
        e = _line_rest_end(source, pos)
        return None if e is None else M(source, pos, e, groups=(source[pos:e],))


class LineComment:
    def match(self, source: str, pos: int = 0):  # type: ignore[no-untyped-def]
        if _at(source, pos) != "#":
            return None
        e = _line_rest_end(source, pos + 1)
        return None if e is None else M(source, pos, e, groups=(source[pos + 1 : e],))


class CommentChunk:
    """(.*?)\\{%(?:[wc]?)\\s*(comment|endcomment|raw|endraw).*?([wc]?)%\\}   (DOTALL)"""

    WORDS = ("comment", "endcomment", "raw", "endraw")

    def match(self, source: str, pos: int = 0):  # type: ignore[no-untyped-def]
        s = source
        n = len(s)
        for k in range(pos, n + 1):  # lazy prefix
            if s[k : k + 2] != "{%":
                continue
            for p1, _w in _opt_wc(s, k + 2):
                q = _skip_ws(s, p1)
                for p2 in range(q, p1 - 1, -1):
                    for w in self.WORDS:  # alternation order
                        if s[p2 : p2 + len(w)] != w:
                            continue
                        p3 = p2 + len(w)
                        for e in range(p3, n + 1):  # lazy .*?
                            for p4, wc in _opt_wc(s, e):
                                if s[p4 : p4 + 2] == "%}":
                                    return NM(s, pos, p4 + 2, "COMMENT_WC_END", {1: s[pos:k], "COMMENT_CHUNK_END": w, "COMMENT_WC_END": wc})
        return None


def install_all(lexer_cls):
    base = install_full(lexer_cls)

    class AllPyLexer(base):  # type: ignore[misc, valid-type]
        RE_TAG_NAME = TagName()
        RE_LINE_TERM = LineTerm()
        RE_REST_OF_LINE = RestOfLine()
        RE_LINE_COMMENT = LineComment()
        RE_COMMENT_TAG_CHUNK = CommentChunk()

    return AllPyLexer


def validate_rest(lexer_cls, alphabet, max_len: int) -> Optional[str]:
    import itertools

    pairs = [("RE_TAG_NAME", TagName()), ("RE_LINE_TERM", LineTerm()), ("RE_REST_OF_LINE", RestOfLine()), ("RE_LINE_COMMENT", LineComment()), ("RE_COMMENT_TAG_CHUNK", CommentChunk())]
    for n in range(max_len + 1):
        for tup in itertools.product(alphabet, repeat=n):
            s = "".join(tup)
            for pos in range(len(s) + 1):
                for name, mine in pairs:
                    real = getattr(lexer_cls, name).match(s, pos)
                    got = mine.match(s, pos)
                    if (real is None) != (got is None):
                        return f"{name} on {s!r}@{pos}: real={real} mine={got}"
                    if real is None:
                        continue
                    if real.end() != got.end():
                        return f"{name} on {s!r}@{pos}: end real={real.end()} mine={got.end()}"
                    if name in ("RE_REST_OF_LINE", "RE_LINE_COMMENT") and real.group(1) != got.group(1):
                        return f"{name} on {s!r}@{pos}: group1 real={real.group(1)!r} mine={got.group(1)!r}"
                    if name == "RE_COMMENT_TAG_CHUNK":
                        for g in (1, "COMMENT_CHUNK_END", "COMMENT_WC_END"):
                            if real.group(g) != got.group(g):
                                return f"{name} on {s!r}@{pos}: group {g} real={real.group(g)!r} mine={got.group(g)!r}"
    return None
