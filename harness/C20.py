"""C20 - literals denote exactly what is written; json output decodes to its input."""

from __future__ import annotations

import ast
import inspect
import json
from typing import List, Optional, Union

from vf.cond import cond

from .common import Environment, LiquidError, concrete_int, in_alpha

from liquid2 import TokenStream  # noqa: E402
from liquid2.builtin import expressions as X  # noqa: E402
from liquid2.exceptions import LiquidSyntaxError  # noqa: E402
from liquid2.lexer import Lexer  # noqa: E402
from liquid2.token import Token, TokenType  # noqa: E402

EXPLANATION = (
    "Round trip value -> escaped source text -> real string scanner -> real parse sites -> value, with the value and "
    "the escaping style of every character as solver variables; integer literals with a symbolic mantissa and exponent."
)
OUTSIDE = [
    "strings longer than 2 (thorough 3) characters; characters outside {\\ ' \" $ { a U+0008 e-acute U+1F600 U+20BB7 U+10FFFF}",
    "`${` inside string literals (interpolation needs the token regex): covered concretely in the grid only",
    "float literals (their value is float(text) by definition); json of values nested deeper than one list level",
]

ENV = Environment()
ALPHA = "\\'\"${a\x08é\U0001F600\U00020BB7\U0010FFFF"
SHORT = {"\\": "\\\\", "'": "\\'", '"': '\\"', "$": "\\$", "\x08": "\\b"}


def esc_char(c: str, style: int, quote: str) -> Optional[str]:
    """Spell character c in the given style; None if that style does not apply."""
    o = ord(c)
    if style == 0:  # raw
        if c == "\\" or c == quote or o < 8:
            return None
        return c
    if style == 1:  # short escape
        s = SHORT.get(c)
        if s is None:
            return None
        if c in "'\"" and c != quote:
            return None  # \' is only an escape inside single quotes, \" inside double quotes
        return s
    if style == 2:  # \uXXXX
        if o > 0xFFFF:
            return None
        return "\\u%04x" % o
    if o <= 0xFFFF:  # surrogate pair
        return None
    o -= 0x10000
    return "\\u%04x\\u%04x" % (0xD800 + (o >> 10), 0xDC00 + (o & 0x3FF))


def spell(v: str, styles: list[int], quote: str) -> Optional[str]:
    out = []
    for c, st in zip(v, styles):
        s = esc_char(c, st, quote)
        if s is None:
            return None
        out.append(s)
    body = "".join(out)
    if "${" in body:
        return None
    return body


def _scan_token(body: str, quote: str):
    full = quote + body + quote + " }}"
    lx = Lexer(ENV, full)
    lx.pos = 1
    lx.start = 1
    lx.markup_start = 0
    out: list = []
    lx.accept_template_string(quote=quote, expression=out)
    return out[0]


def _path_segment(body: str, quote: str):
    full = "a[" + quote + body + quote + "] }}"
    lx = Lexer(ENV, full)
    lx.pos = 1
    lx.start = 0
    lx.markup_start = 0
    lx.accept_path(carry=True)
    return lx.path_stack.pop()


def _value_everywhere(body: str, quote: str, want: str) -> bool:
    tok = _scan_token(body, quote)
    if not isinstance(tok, Token):
        return False
    if X.parse_primitive(ENV, tok).value != want:
        return False
    if X.parse_boolean_primitive(ENV, TokenStream([tok])).value != want:
        return False
    if str(X.parse_string_or_identifier(tok)) != want:
        return False
    if X.parse_string_or_path(tok).value != want:
        return False
    ptok = _path_segment(body, quote)
    p = X.Path(ptok, ptok.path)
    return len(p.path) == 2 and p.path[1] == want


_GRID = [("a'", [0, 1], False), ('a"', [0, 1], True), ("\\", [1], False), ("\\$", [1, 1], True), ("é\U0001F600", [2, 3], True), ("\x08", [1], False),
         ("\x08", [2], True), ("'\"", [1, 0], False), ("$a", [0, 0], True), ("{$", [0, 0], False), ("\\'", [1, 1], False), ("", [], True), ("\U00020BB7", [3], True), ("\U0010FFFFa", [3, 0], False)]


@cond(
    pre=["len(v) <= N", "in_alpha(v, ALPHA)", "0 <= s0 < 4", "0 <= s1 < 4", "0 <= s2 < 4"],
    consts={"N": 2},
    consts_thorough={"N": 3},
    timeout=300,
    timeout_thorough=2400,
    shard={"dq": [False, True], "s0": [0, 1, 2, 3]},
    covers="every string over the alphabet, under every valid escaping of each character, evaluates to exactly that string at all five parse sites (parse_primitive, parse_boolean_primitive, parse_string_or_identifier, parse_string_or_path, bracketed path segment)",
    bounds="v over {\\ ' \" $ { a U+0008 e-acute U+1F600 U+20BB7 U+10FFFF} len <= 2 (thorough 3); 4 escaping styles per character (raw, short, \\uXXXX, surrogate pair); both quote kinds",
    grid=lambda: [(v, d, (st + [0, 0, 0])[0], (st + [0, 0, 0])[1], (st + [0, 0, 0])[2], 9) for (v, st, d) in _GRID],
)
def k_literal_rt(v: str, dq: bool, s0: int, s1: int, s2: int, N: int) -> bool:
    quote = '"' if dq else "'"
    styles = [s0, concrete_int(s1, 0, 3), concrete_int(s2, 0, 3)][: len(v)]
    body = spell(v, styles, quote)
    if body is None:
        return True  # this style vector does not spell v
    try:
        return _value_everywhere(body, quote, v)
    except LiquidError:
        return False
    except Exception:  # noqa: BLE001
        return False


@cond(pre=["len(v) <= 1", "in_alpha(v, ALPHA)"], twin=True, timeout=60, covers="reachability twin: escapes are decoded (value differs from the spelled text)")
def twin_literal(v: str) -> bool:
    body = spell(v, [2] * len(v), '"')
    if body is None:
        return True
    return X.parse_primitive(ENV, _scan_token(body, '"')).value == body


_TS = [
    ("'a${x}b'", {"x": 1}, "a1b"), ('"${x}"', {"x": "q"}, "q"), ("'\\${x}'", {"x": 1}, "${x}"), ("'$ {x}'", {"x": 1}, "$ {x}"),
    ("'a${ \"b${x}\" }c'", {"x": 2}, "ab2c"), ("'${x | upcase}\\''", {"x": "a"}, "A'"), ('"\\u00e9${x}\\ud83d\\ude00"', {"x": ""}, "é\U0001F600"),
]


@cond(grid_only=True, covers="interpolated template strings `${...}` (need the token regex: concrete cases only)", bounds="7 concrete literals",
      grid=lambda: [(i,) for i in range(len(_TS))])
def g_template_strings(i: int) -> bool:
    src, data, want = _TS[i]
    return ENV.from_string("{{ " + src + " }}").render(**data) == want


# --- integers ------------------------------------------------------------------------------
BASES = [0, 2**53 - 50, 2**63 - 50, 10**22, 10**40 - 100]


@cond(
    pre=["0 <= m < 100", "0 <= e <= 3"],
    timeout=200,
    shard={"neg": [False, True], "k": [0, 1, 2, 3, 4]},
    covers="integer literals (incl. scientific notation, beyond 2^53 and up to 10^40) evaluate to exactly the number written, via parse_primitive and parse_boolean_primitive",
    bounds="literal = +-(BASES[k] + m) 'e' e with m in 0..99, BASES = {0, 2^53-50, 2^63-50, 10^22, 10^40-100}, e in 0..3",
    grid=lambda: [(51, 1, 0, False), (51, 1, 0, True), (99, 4, 3, False), (0, 0, 0, True), (55, 2, 2, False)],
)
def k_int_literal(m: int, k: int, e: int, neg: bool) -> bool:
    e = concrete_int(e, 0, 3)
    n = BASES[k] + concrete_int(m, 0, 99)  # literal text is concrete per path: the solver enumerates (m, e)
    text = ("-" if neg else "") + str(n)
    want = -n if neg else n
    for spelled, val in ((text, want), (text + "e" + str(e), want * 10**e), (text + "E+" + str(e), want * 10**e)):
        tok = Token(type_=TokenType.INT, value=spelled, index=3, source="{{ " + spelled + " }}")
        try:
            a = X.parse_primitive(ENV, tok).value
            b = X.parse_boolean_primitive(ENV, TokenStream([tok])).value
        except Exception:  # noqa: BLE001
            return False
        if a != val or b != val or isinstance(a, float):
            return False
    return True


def _uses_float(fn) -> bool:
    tree = ast.parse(inspect.getsource(fn))
    for node in ast.walk(tree):
        if isinstance(node, ast.Call) and isinstance(node.func, ast.Name) and node.func.id == "float":
            # float(token.value) feeding an IntegerLiteral
            parent_src = ast.unparse(node)
            if "token.value" in parent_src:
                return True
    return False


@cond(grid_only=True, covers="Z-lemma: if an INT literal is (again) converted through float(), z3 produces an integer <= 10^40 with int(float(n)) != n and the witness is rendered",
      bounds="136-bit bit-vector -> float64 (fpUnsignedToFP, RNE) -> integer; generated from the AST of the literal conversion on every run",
      grid=lambda: [(0,)])
def z_int_float_lemma(_i: int) -> bool:
    src = inspect.getsource(X.parse_primitive) + inspect.getsource(X.parse_boolean_primitive)
    int_branch_float = False
    for fn in (X.parse_primitive, X.parse_boolean_primitive):
        tree = ast.parse(inspect.getsource(fn))
        for node in ast.walk(tree):
            if isinstance(node, ast.Call) and getattr(node.func, "id", "") == "IntegerLiteral":
                if "float(" in ast.unparse(node):
                    int_branch_float = True
    helper = getattr(X, "_parse_integer_literal", None)
    if helper is not None and "float(" in inspect.getsource(helper):
        int_branch_float = True
    if not int_branch_float:
        return True  # lemma not applicable to this source: the K condition decides exactness
    import z3

    n = z3.BitVec("n", 136)
    f = z3.fpUnsignedToFP(z3.RNE(), n, z3.Float64())
    back = z3.fpToUBV(z3.RTZ(), f, z3.BitVecSort(136))
    s = z3.Solver()
    s.add(z3.ULE(n, z3.BitVecVal(10**40, 136)), back != n)
    if str(s.check()) != "sat":
        return True
    w = s.model()[n].as_long()
    return ENV.from_string("{{ " + str(w) + " }}").render() == str(w)


# --- json --------------------------------------------------------------------------------------
JS_ALPHA = 'a"\\\né'
J = Union[int, bool, None, str]


_JSON_T = ENV.from_string("{{ x | json }}")


@cond(
    pre=["not isinstance(x, str) or (len(x) <= 2 and in_alpha(x, JS_ALPHA))", "not isinstance(x, int) or -30 <= x <= 30"],
    timeout=200,
    shard={"wrap": [0, 1, 2]},
    covers="json.loads(render('{{ x | json }}')) == x for scalars, one-element lists and one-key hashes",
    bounds="x: int -30..30 (the C encoder realizes every value) | bool | None | str over {a \" \\ LF e-acute} len <= 2; wrapped as x, [x], {'k': x}",
    grid=lambda: [(0, 'a"'), (1, None), (2, "\\\n"), (0, True), (1, 10**30), (2, "é")],
)
def k_json_rt(wrap: int, x: J) -> bool:
    val = [x, [x], {"k": x}][wrap]
    try:
        out = _JSON_T.render(x=val)
    except LiquidError:
        return False
    try:
        back = json.loads(out)
    except Exception:  # noqa: BLE001
        return False
    return back == val and type(back) is type(val)
