"""Helpers shared by the harness modules (stubs listed in the evidence files)."""

from __future__ import annotations

import os
import sys

REPO = os.environ.get("VF_REPO", "/repo")
if REPO not in sys.path:
    sys.path.insert(0, REPO)

import markupsafe  # noqa: E402

# markupsafe's C `_escape_inner` crashes on CrossHair's str proxies; use the
# library's own pure-Python twin (same function, different speed).
try:  # pragma: no cover - depends on markupsafe version
    import markupsafe._native as _native

    markupsafe._escape_inner = _native._escape_inner  # type: ignore[attr-defined]
except Exception:  # noqa: BLE001
    pass

from liquid2 import DictLoader, Environment  # noqa: E402
from liquid2.exceptions import LiquidError  # noqa: E402
from liquid2.undefined import FalsyStrictUndefined, StrictUndefined  # noqa: E402

STUB_MARKUPSAFE = "markupsafe._escape_inner := markupsafe._native._escape_inner (the library's pure-Python twin)"
STUB_STRICT_INIT = "StrictUndefined subclasses allow `__init__` (CrossHair constructs objects through obj.__init__)"


class VStrict(StrictUndefined):
    allowed_properties = frozenset(StrictUndefined.allowed_properties) | {"__init__"}


class VFalsyStrict(FalsyStrictUndefined):
    allowed_properties = frozenset(FalsyStrictUndefined.allowed_properties) | {"__init__"}


def outcome(fn, *a, **k):
    """Run fn; return ('ok', value) | ('liquid', ErrorClassName) | ('escape', ExcClassName)."""
    try:
        return ("ok", fn(*a, **k))
    except LiquidError as e:
        return ("liquid", type(e).__name__)
    except Exception as e:  # noqa: BLE001  (never BaseException: CrossHair steers with those)
        return ("escape", type(e).__name__)


class _Inline:
    """Awaitable that runs `fn(*args)` inline at the await point (an executor with no concurrency)."""

    def __init__(self, fn, args):  # type: ignore[no-untyped-def]
        self.fn, self.args = fn, args

    def __await__(self):  # type: ignore[no-untyped-def]
        if False:  # noqa: SIM108 - makes this a generator
            yield None
        return self.fn(*self.args)


class InlineLoop:
    """Stub event loop: `run_in_executor` executes the callable inline when awaited."""

    def run_in_executor(self, executor, fn, *args):  # type: ignore[no-untyped-def]  # noqa: ARG002
        return _Inline(fn, args)


STUB_LOOP = (
    "asyncio.get_running_loop() := stub loop whose run_in_executor(fn, *args) runs fn inline at the await point "
    "(the thread-pool hop of FileSystemLoader/PackageLoader is not modelled; results and exceptions are the callable's own)"
)


def drive(coro):
    """Run a coroutine that never really suspends (no event loop needed)."""
    import asyncio

    saved = asyncio.get_running_loop
    asyncio.get_running_loop = InlineLoop  # type: ignore[assignment]
    try:
        while True:
            coro.send(None)
    except StopIteration as e:
        return e.value
    finally:
        asyncio.get_running_loop = saved  # type: ignore[assignment]


def in_alpha(s: str, alpha: str) -> bool:
    return all(c in alpha for c in s)


def concrete_int(x: int, lo: int, hi: int) -> int:
    """Return x as a plain Python int (the solver forks once per value in lo..hi)."""
    for k in range(lo, hi + 1):
        if x == k:
            return k
    raise ValueError("concrete_int: value outside the stated range")


def seed() -> int:
    try:
        return int(os.environ.get("VERIF_SEED", "0") or 0)
    except ValueError:
        return 0


def tier() -> str:
    return os.environ.get("VERIF_TIER", "quick")


# --- C-boundary stubs, active only inside a CrossHair worker ---------------------------
STUB_LIMITED_IO = (
    "LimitedStringIO.write(s): s is realized (solver-enumerated) before the real method runs, "
    "because the C-level StringIO.write it delegates to rejects str proxies"
)
STUB_MARKUP = "markupsafe.Markup(x): x is realized and a real Markup built (CrossHair's str construction would drop the subclass)"
STUB_INTERN = "sys.intern := identity (pathlib interns path segments; C intern rejects str proxies)"
if os.environ.get("VF_WORKER") == "1":  # pragma: no cover - exercised in workers only
    from crosshair import realize as _realize
    from crosshair import register_patch as _register_patch
    from liquid2.output import LimitedStringIO as _LSIO

    import io as _io

    _lsio_write = _LSIO.write

    def _lsio_write_realized(self, s):  # type: ignore[no-untyped-def]
        # CrossHair unbinds `super().write` (a C method bound to a LimitedStringIO) to
        # `type(self).write`, i.e. back to this override: the re-entrant call *is* the
        # `super().write(__s)` of liquid2/output.py and goes to the C method.
        if self.__dict__.get("_vf_in_write"):
            return _io.StringIO.write(self, s)
        self.__dict__["_vf_in_write"] = True
        try:
            return _lsio_write(self, _realize(s))
        finally:
            self.__dict__["_vf_in_write"] = False

    _register_patch(_LSIO.write, _lsio_write_realized)

    # markupsafe.Markup(symbolic str): CrossHair's str construction returns a *plain* symbolic
    # str, silently dropping the Markup type - every "safe" value then looks unsafe and is
    # escaped again, which made the C04 conditions vacuously true (caught by the native grid
    # on a seeded url_decode change).  Realize the text and build a real Markup.
    from crosshair.tracers import NoTracing as _NoTracing

    _RealMarkup = markupsafe.Markup

    def _markup_ctor(*a, **kw):  # type: ignore[no-untyped-def]
        ra = [_realize(x) for x in a]
        rk = {k: _realize(v) for k, v in kw.items()}
        with _NoTracing():
            return _RealMarkup(*ra, **rk)

    _register_patch(_RealMarkup, _markup_ctor)

    # pathlib interns every path segment (sys.intern is C and rejects proxies); interning
    # is semantically the identity on str.
    _register_patch(sys.intern, lambda s: s)


def untraced(fn):
    """Run fn() with CrossHair's tracer suspended (plain CPython); identity outside workers."""
    if os.environ.get("VF_WORKER") == "1":
        from crosshair.tracers import NoTracing, is_tracing

        if is_tracing():
            with NoTracing():
                return fn()
    return fn()
