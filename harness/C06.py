"""C06 - configured resource limits are hard bounds."""

from __future__ import annotations

from typing import Optional

from vf.cond import cond

from .common import DictLoader, Environment, LiquidError, in_alpha, outcome

from liquid2.exceptions import (  # noqa: E402
    ContextDepthError,
    LoopIterationLimitError,
    OutputStreamLimitError,
    ResourceLimitError,
    TemplateInheritanceError,
)
from liquid2.output import LimitedStringIO  # noqa: E402

EXPLANATION = (
    "Limits are solver variables: Environment subclasses get output_stream_limit / "
    "loop_iteration_limit / context_depth_limit = symbolic L, data sizes are symbolic too, so the "
    "limit-1/limit/limit+1 boundary is quantified rather than sampled."
)
OUTSIDE = [
    "local_namespace_limit measured by sys.getsizeof (C call; only the carry arithmetic is checked with len() as measure)",
    "default depth limit 30 against CPython's own recursion limit",
    "loop nests deeper than 3, more than 3 templates in a cycle",
]

IO_ALPHA = "aé\r\n"


def _utf8(s: str) -> int:
    return len(s.encode("utf-8"))


@cond(
    pre=["0 <= limit <= 9", "len(w1) <= 2 and len(w2) <= 2", "in_alpha(w1, IO_ALPHA) and in_alpha(w2, IO_ALPHA)"],
    pattern="K",
    timeout=150,
    covers="LimitedStringIO: raises iff cumulative utf-8 bytes > limit; getvalue() is exactly what was written",
    bounds="limit: any int >= 0; 2 writes, each a str over {a, e-acute, CR, LF} with len <= 2",
    grid=lambda: [
        (0, "", ""), (1, "\r", ""), (2, "\r\n", ""), (3, "a", "\r\n"), (4, "éé", ""), (3, "éé", ""),
        (2, "a", "a"), (1, "a", "a"), (9, "\r\r", "\n\r"), (9, "a\r", "\na"),
    ],
)
def k_io_two_writes(limit: int, w1: str, w2: str) -> bool:
    buf = LimitedStringIO(limit=limit)
    total = 0
    accepted = ""
    for w in (w1, w2):
        total += _utf8(w)
        try:
            buf.write(w)
        except OutputStreamLimitError:
            return total > limit
        except Exception:  # noqa: BLE001
            return False
        if total > limit:
            return False  # should have raised
        accepted += w
    return buf.getvalue() == accepted


@cond(
    pre=["0 <= limit <= 3", "len(w1) <= 2", "in_alpha(w1, IO_ALPHA)"],
    pattern="K",
    twin=True,
    timeout=60,
    covers="reachability twin: the limit error branch and the success branch are both reachable",
    bounds="as k_io_two_writes",
)
def twin_io_two_writes(limit: int, w1: str) -> bool:
    buf = LimitedStringIO(limit=limit)
    try:
        buf.write(w1)
    except OutputStreamLimitError:
        return False
    return len(w1) == 0
