"""C06 - configured resource limits are hard bounds."""

from __future__ import annotations

from typing import Optional

from vf.cond import cond

from .common import STUB_LIMITED_IO, DictLoader, concrete_int, Environment, LiquidError, drive, in_alpha, outcome, untraced

from liquid2.exceptions import (  # noqa: E402
    ContextDepthError,
    LoopIterationLimitError,
    OutputStreamLimitError,
    ResourceLimitError,
    TemplateInheritanceError,
    DisabledTagError,
)
from liquid2.output import LimitedStringIO  # noqa: E402

EXPLANATION = (
    "Limits are solver variables: Environment subclasses get output_stream_limit / "
    "loop_iteration_limit / context_depth_limit = symbolic L, data sizes are symbolic too, so the "
    "limit-1/limit/limit+1 boundary is quantified rather than sampled."
)
OUTSIDE = [
    "local_namespace_limit measured by the default sys.getsizeof (C call): the limit logic is checked through the documented get_size_of_locals override with len() as measure",
    "default depth limit 30 against CPython's own recursion limit",
    "loop nests deeper than 3, more than 3 templates in a cycle",
]

IO_ALPHA = "aé\r\n"


def _utf8(s: str) -> int:
    return len(s.encode("utf-8"))


@cond(
    pre=["0 <= limit <= 9", "len(w1) <= 2 and len(w2) <= 2", "in_alpha(w1, IO_ALPHA) and in_alpha(w2, IO_ALPHA)"],
    pattern="K",
    timeout=150,
    covers="LimitedStringIO: raises iff cumulative utf-8 bytes > limit; getvalue() is exactly what was written",
    bounds="limit: any int >= 0; 2 writes, each a str over {a, e-acute, CR, LF} with len <= 2",
    grid=lambda: [
        (0, "", ""), (1, "\r", ""), (2, "\r\n", ""), (3, "a", "\r\n"), (4, "éé", ""), (3, "éé", ""),
        (2, "a", "a"), (1, "a", "a"), (9, "\r\r", "\n\r"), (9, "a\r", "\na"),
    ],
)
def k_io_two_writes(limit: int, w1: str, w2: str) -> bool:
    buf = LimitedStringIO(limit=limit)
    total = 0
    accepted = ""
    for w in (w1, w2):
        total += _utf8(w)
        try:
            buf.write(w)
        except OutputStreamLimitError:
            return total > limit
        except Exception:  # noqa: BLE001
            return False
        if total > limit:
            return False  # should have raised
        accepted += w
    return buf.getvalue() == accepted


@cond(
    pre=["0 <= limit <= 3", "len(w1) <= 2", "in_alpha(w1, IO_ALPHA)"],
    pattern="K",
    twin=True,
    timeout=60,
    covers="reachability twin: the limit error branch and the success branch are both reachable",
    bounds="as k_io_two_writes",
)
def twin_io_two_writes(limit: int, w1: str) -> bool:
    buf = LimitedStringIO(limit=limit)
    try:
        buf.write(w1)
    except OutputStreamLimitError:
        return False
    return len(w1) == 0


# --------------------------------------------------------------------------------------------
# D-C06-out: output limit as a solver variable
# --------------------------------------------------------------------------------------------
from .common import concrete_int  # noqa: E402

PARTS = {
    "p": "{% for j in (1..m) %}xy{% endfor %}",
    "q": "é{{ n }}",
    "base": "[{% block b %}base{% for j in (1..m) %}z{% endfor %}{% endblock %}]",
    "child": "{% extends 'base' %}{% block b %}{{ block.super }}|{% for i in (1..n) %}c{% endfor %}{% endblock %}",
}


def _rend(t, is_async: bool, **data):  # type: ignore[no-untyped-def]
    return drive(t.render_async(**data)) if is_async else t.render(**data)


class _Limited(Environment):
    output_stream_limit = 10**9
    loop_iteration_limit = None


ENV_L = _Limited(loader=DictLoader(dict(PARTS)))
ENV_U = Environment(loader=DictLoader(dict(PARTS)))
OUT_SRC = [
    "{% for i in (1..n) %}ab{% endfor %}",
    "é{% for i in (1..n) %}{% for j in (1..m) %}é{% endfor %}-{% endfor %}",
    "{% capture c %}{% for i in (1..n) %}ab{% endfor %}{% endcapture %}<{{ c }}>",
    "x{% for i in (1..n) %}{% render 'p' %}{% include 'q' %}{% endfor %}",
    "{% if n > 1 %} {% endif %}{% for i in (1..n) %} {% assign z = i %}\n{% endfor %}{{ z }}{% for i in (1..m) %}{% if i == 2 %}{% break %}{% endif %}w{% endfor %}",
    "{% macro mm, k %}{% for i in (1..k) %}q{% endfor %}{% endmacro %}{% call mm, n %}{% call mm, m %}{% capture c %}{% call mm, n %}{% endcapture %}{{ c | size }}",
    "{% extends 'child' %}",
    "{% for i in (1..n) %}{% capture c %}{{ c }}é{% endcapture %}{% endfor %}{{ c }}|{{ c | upcase }}",
]
OUT_L = [ENV_L.from_string(s) for s in OUT_SRC]
OUT_U = [ENV_U.from_string(s) for s in OUT_SRC]
for _t in OUT_L + OUT_U:
    try:
        _t.render(n=1, m=1)
    except Exception:  # noqa: BLE001
        pass
ENV_L.output_stream_limit = 10**9


@cond(
    pre=["0 <= n <= 3", "0 <= m <= 3", "0 <= L <= 40"],
    timeout=240,
    shard={"i": list(range(len(OUT_SRC))), "is_async": [False, True]},
    covers="output_stream_limit = L (solver variable): success => output identical to the unlimited render and len(output.encode()) <= L; unlimited output <= L bytes => success (a limit that is not exceeded changes nothing); failure => OutputStreamLimitError - through loops, nested loops, capture buffers (carry of the parent size), render/include partials, blank blocks written to a null buffer, macros, block.super, multi-byte text; render() and render_async()",
    bounds="8 programs; loop sizes n, m in 0..3; limit L in 0..40 (every boundary limit-1/limit/limit+1 of every reachable size is inside)",
    stubs=(STUB_LIMITED_IO,),
    grid=lambda: [(i, n, m, L, a) for i in range(len(OUT_SRC)) for n in (0, 1, 3) for m in (0, 2) for L in (0, 1, 5, 6, 7, 12, 40) for a in (False, True)],
)
def d_output_limit(i: int, n: int, m: int, L: int, is_async: bool) -> bool:
    ref = OUT_U[i].render(n=n, m=m)
    size = len(ref.encode("utf-8"))
    ENV_L.output_stream_limit = L
    try:
        out = _rend(OUT_L[i], is_async, n=n, m=m)
    except OutputStreamLimitError:
        return size > L or i in (2, 5, 7)  # capture-heavy programs may also fail on what they capture but never print in full
    except LiquidError:
        return False
    finally:
        ENV_L.output_stream_limit = 10**9
    return out == ref and size <= L


@cond(
    pre=["0 <= n <= 3", "0 <= m <= 3", "0 <= L <= 40"],
    timeout=240,
    shard={"i": [2, 5, 7], "is_async": [False, True]},
    covers="capture programs: the render fails iff at some moment parent-buffer bytes + capture-buffer bytes exceed L (the carry of get_output_buffer), computed by a hand-written consumption formula per program",
    bounds="3 capture programs; n, m in 0..3; L in 0..40",
    stubs=(STUB_LIMITED_IO,),
    grid=lambda: [(i, n, m, L, a) for i in (2, 5, 7) for n in (0, 1, 3) for m in (0, 2) for L in (0, 1, 2, 5, 6, 7, 8, 12, 40) for a in (False, True)],
)
def d_capture_limit(i: int, n: int, m: int, L: int, is_async: bool) -> bool:
    n = concrete_int(n, 0, 3)
    m = concrete_int(m, 0, 3)
    if i == 2:
        peak = max(2 * n, 2 * n + 2)  # capture of 2n bytes at parent size 0, then '<' + c + '>'
    elif i == 5:
        peak = max(n + m + n, n + m + 1)  # two calls, then a capture of n bytes on top of n+m, then one digit
    else:
        # capture k holds 2k bytes ('é' * k) while the parent is empty; finally c | c
        peak = max([2 * k for k in range(1, n + 1)] + [2 * n + 1 + 2 * n])
    ENV_L.output_stream_limit = L
    try:
        _rend(OUT_L[i], is_async, n=n, m=m)
        ok = True
    except OutputStreamLimitError:
        ok = False
    except LiquidError:
        return False
    finally:
        ENV_L.output_stream_limit = 10**9
    return ok == (peak <= L)


# --------------------------------------------------------------------------------------------
# D-C06-loop: loop iteration limit as a solver variable
# --------------------------------------------------------------------------------------------
LOOP_PARTS = {
    "p": "{% for j in (1..m) %}.{% endfor %}",
    "pp": "{% for j in (1..m) %}{% render 'p' %}{% endfor %}",
    "fwd": "({% render 'p' %})",  # a loop-free partial between two loops: the carry must pass through
    "fwd2": "{% macro f %}{% render 'fwd' %}{% endmacro %}{% call f %}",
    "base": "{% block b %}{% endblock %}",
    "child": "{% extends 'base' %}{% block b %}{% render 'p' %}{% endblock %}",
    "one": "{% for k in (1..2) %}.{% endfor %}",
}


from liquid2.shopify import Environment as _ShopifyEnvironment  # noqa: E402


class _LoopLimited(_ShopifyEnvironment):
    loop_iteration_limit = 10**9


ENV_LOOP = _LoopLimited(loader=DictLoader(dict(LOOP_PARTS)))
LOOP_SRC = [
    ("{% for i in (1..n) %}{% for j in (1..m) %}.{% endfor %}{% endfor %}", lambda n, m: max(n, n * m if n else 0)),
    ("{% for i in (1..n) %}{% render 'p' %}{% endfor %}{% for i in (1..m) %}.{% endfor %}", lambda n, m: max(n, n * m if n else 0, m)),
    ("{% for i in (1..n) %}{% include 'p' %}{% endfor %}", lambda n, m: max(n, n * m if n else 0)),
    ("{% macro mm %}{% for j in (1..m) %}.{% endfor %}{% endmacro %}{% for i in (1..n) %}{% call mm %}{% endfor %}", lambda n, m: max(n, n * m if n else 0)),
    ("{% for i in (1..n) %}{% render 'pp' %}{% endfor %}", lambda n, m: max(n, n * m if n else 0, n * m * m if (n and m) else 0)),
    ("{% for i in (1..n) %}{% render 'fwd' %}{% endfor %}", lambda n, m: max(n, n * m if n else 0)),
    ("{% for i in (1..n) %}{% render 'fwd2' %}{% endfor %}", lambda n, m: max(n, n * m if n else 0)),
    ("{% macro g %}{% render 'fwd' %}{% endmacro %}{% for i in (1..n) %}{% call g %}{% endfor %}", lambda n, m: max(n, n * m if n else 0)),
    ("{% for i in (1..n) %}{% render 'child' %}{% endfor %}", lambda n, m: max(n, n * m if n else 0)),
    ("{% for i in (1..n) %}{% capture c %}{% for j in (1..m) %}{% for k in (1..2) %}.{% endfor %}{% endfor %}{% endcapture %}{% endfor %}", lambda n, m: max(n, n * m if n else 0, n * m * 2 if (n and m) else 0)),
    ("{% for i in (1..n) %}{% if i == 1 %}{% for j in (1..m) %} {% endfor %}{% endif %}{% endfor %}{% tablerow r in (1..m) %}{% for i in (1..n) %}.{% endfor %}{% endtablerow %}".replace("{% tablerow r in (1..m) %}", "{% for r in (1..m) %}").replace("{% endtablerow %}", "{% endfor %}"),
     lambda n, m: max(n, n * m if n else 0, m, m * n if m else 0)),
    # loops that are not `for` tags: render ... for, include ... for, tablerow (aa has n items, bb has m items)
    ("{% render 'p' for aa %}", lambda n, m: max(n, n * m)),
    ("{% include 'p' for aa %}", lambda n, m: max(n, n * m)),
    ("{% for i in (1..n) %}{% render 'one' for bb %}{% endfor %}", lambda n, m: max(n, n * m, 2 * n * m)),
    ("{% tablerow r in (1..n) cols: 2 %}{% for j in (1..m) %}.{% endfor %}{% endtablerow %}", lambda n, m: max(n, n * m)),
    ("{% for i in (1..n) %}{% tablerow r in bb %}{% include 'one' %}{% endtablerow %}{% endfor %}", lambda n, m: max(n, n * m, 2 * n * m)),
]
LOOP_T = [ENV_LOOP.from_string(s) for s, _ in LOOP_SRC]
for _t in LOOP_T:
    try:
        _t.render(n=1, m=1, aa=[0], bb=[0])
    except Exception:  # noqa: BLE001
        pass


@cond(
    pre=["0 <= n <= 3", "0 <= m <= 3", "1 <= L <= 20"],
    timeout=240,
    shard={"i": list(range(len(LOOP_SRC))), "is_async": [False, True]},
    covers="loop_iteration_limit = L (solver variable): the render fails with LoopIterationLimitError iff the largest product of nested loop lengths - across for, tablerow, render ... for, include ... for, render, include, macro call, capture and blank blocks - exceeds L; otherwise it succeeds; render() and render_async()",
    bounds="16 loop nests (depth <= 3 across partial/macro/block boundaries, incl. loop-free forwarding partials and macros between two loops, and the three looping constructs that are not `for` tags); n, m in 0..3; L in 1..20",
    grid=lambda: [(i, n, m, L, a) for i in range(len(LOOP_SRC)) for n in (0, 1, 3) for m in (0, 2, 3) for L in (1, 2, 3, 5, 6, 8, 9, 17, 18, 20) for a in (False, True)],
)
def d_loop_limit(i: int, n: int, m: int, L: int, is_async: bool) -> bool:
    n = concrete_int(n, 0, 3)
    m = concrete_int(m, 0, 3)
    need = LOOP_SRC[i][1](n, m)
    ENV_LOOP.loop_iteration_limit = L
    try:
        _rend(LOOP_T[i], is_async, n=n, m=m, aa=list(range(n)), bb=list(range(m)))
        ok = True
    except LoopIterationLimitError:
        ok = False
    except LiquidError:
        return False
    finally:
        ENV_LOOP.loop_iteration_limit = 10**9
    return ok == (need <= L)


# --------------------------------------------------------------------------------------------
# D-C06-namespace: local_namespace_limit with the documented extension point (get_size_of_locals)
# --------------------------------------------------------------------------------------------
from io import StringIO as _StringIO  # noqa: E402

from liquid2 import RenderContext  # noqa: E402
from liquid2.exceptions import LocalNamespaceLimitError  # noqa: E402
from liquid2.utils import ReadOnlyChainMap as _Chain  # noqa: E402
from liquid2.context import builtin as _builtin  # noqa: E402


def _measure(v: object) -> int:
    return len(v) if isinstance(v, str) else 1


class _RecLocals(dict):
    """The local namespace; records the largest score it ever had (independent observation point)."""

    PEAK = [0]

    def __init__(self, carry: int):
        super().__init__()
        self.carry = carry

    def __setitem__(self, key, val):  # type: ignore[no-untyped-def]
        dict.__setitem__(self, key, val)
        now = sum(_measure(v) for v in self.values()) + self.carry
        if now > _RecLocals.PEAK[0]:
            _RecLocals.PEAK[0] = now


class SizeCtx(RenderContext):
    """get_size_of_locals overridden as the documentation describes: characters of strings, 1 per other value, plus the carry."""

    __slots__ = ()

    def __init__(self, template, **kw):  # type: ignore[no-untyped-def]
        super().__init__(template, **kw)
        self.locals = _RecLocals(self.local_namespace_carry)
        self.scope = _Chain(self.locals, self.globals, _builtin, self.counters)

    def get_size_of_locals(self) -> int:
        if not self.env.local_namespace_limit:
            return 0
        return sum(_measure(v) for v in self.locals.values()) + self.local_namespace_carry


class _NsEnv(Environment):
    local_namespace_limit = None


ENV_NS = _NsEnv(loader=DictLoader({
    "p": "{% assign w = s %}{% assign w = w | append: s | append: s %}<{{ w }}>",
    "q": "{% assign w = 'b' %}{% render 'p', s: s %}",
}))
NS_SRC = [
    "{% assign v = s %}{% assign v = v | append: s %}{{ v }}",
    "{% assign v = 'a' %}{% for i in (1..n) %}{% assign v = v | append: s %}{% endfor %}{{ v | size }}",
    "{% capture c %}{{ s }}{% endcapture %}{% capture c %}{{ c }}{{ s }}{{ s }}{% endcapture %}{{ c }}",
    "{% assign v = s %}{% render 'p', s: s %}{{ v }}",
    "{% liquid assign a = s\n assign b = a | append: a\n assign a = b | append: b\n%}{{ a }}",
    "{% macro m, t %}{% assign q = t %}{% assign q = q | append: t %}{{ q }}{% endmacro %}{% assign v = s %}{% call m, s %}{% call m, v %}",
    "{% assign v = s %}{% for i in (1..n) %}{% render 'q', s: s %}{% endfor %}{% assign v = 1 %}{% assign u = s %}",
    "{% assign v = s %}{% if n > 1 %}{% assign v = s | append: s | append: s %}{% else %}{% assign z = s %}{% endif %}{{ v }}{{ z }}",
]
NS_T = [ENV_NS.from_string(src) for src in NS_SRC]
for _t in NS_T:
    try:
        _t.render(s="a", n=1)
    except Exception:  # noqa: BLE001
        pass


def _ns_run(i: int, s: str, n: int, limit, is_async: bool = False):  # type: ignore[no-untyped-def]
    ENV_NS.local_namespace_limit = limit
    _RecLocals.PEAK[0] = 0
    t = NS_T[i]
    buf = _StringIO()
    try:
        ctx = SizeCtx(t, global_data=t.make_globals({"s": s, "n": n}))
        if is_async:
            drive(t.render_with_context_async(ctx, buf))
        else:
            t.render_with_context(ctx, buf)
        res = ("ok", buf.getvalue())
    except LocalNamespaceLimitError:
        res = ("limit",)
    except LiquidError:
        res = ("other",)
    finally:
        ENV_NS.local_namespace_limit = None
    return res, _RecLocals.PEAK[0]


@cond(
    pre=["len(s) <= 2", "in_alpha(s, 'a')", "0 <= n <= 2", "1 <= L <= 14"],
    timeout=240,
    shard={"i": list(range(len(NS_SRC))), "is_async": [False, True]},
    covers="local_namespace_limit = L (solver variable), measured through the documented get_size_of_locals override: a render that succeeds never had a local namespace scoring more than L at any assignment - first binding, re-binding of an existing name with a larger value, capture, assignments in loops, inside rendered partials (carry) and macros - and a render whose namespace never exceeds L does not fail and renders what the unlimited environment renders",
    bounds="8 programs; s over {a} len <= 2 (value sizes are solver variables); n in 0..2; L in 1..14; score = characters of strings + 1 per other value + carry",
    stubs=("RenderContext subclass: get_size_of_locals overridden (documented extension point) with len() as the measure; locals dict records its peak score",),
    grid=lambda: [(i, s, n, L, a) for i in range(len(NS_SRC)) for s in ("", "a", "aa") for n in (0, 1, 2) for L in (1, 2, 3, 4, 5, 6, 8, 9, 12) for a in (False, True)],
)
def d_namespace_limit(i: int, s: str, n: int, L: int, is_async: bool) -> bool:
    n = concrete_int(n, 0, 2)
    free, _ = _ns_run(i, s, n, None)
    res, peak = _ns_run(i, s, n, L, is_async)
    if res[0] == "other" or free[0] != "ok":
        return False
    if res[0] == "ok":
        return peak <= L and res == free
    # the limit error is justified only if some assignment really took the namespace over L
    _, free_peak = _ns_run(i, s, n, 10**6)
    return free_peak > L


# --------------------------------------------------------------------------------------------
# S-C06-cycles: cyclic partial graphs always end in a depth / inheritance error
# --------------------------------------------------------------------------------------------
KINDS = ["include", "render", "extends"]


class _Depth(Environment):
    context_depth_limit = 30


def _cyclic_env(e0: int, k0: int, e1: int, k1: int, e2: int, k2: int) -> Environment:
    names = ["t0", "t1", "t2"]
    src = {}
    for name, (e, k) in zip(names, ((e0, k0), (e1, k1), (e2, k2))):
        kind = KINDS[k]
        src[name] = ("{% " + kind + " '" + names[e] + "' %}") if kind == "extends" else ("a{% " + kind + " '" + names[e] + "' %}b")
    return _Depth(loader=DictLoader(src))


@cond(
    pre=["0 <= e0 < 3", "0 <= e1 < 3", "0 <= e2 < 3", "0 <= k0 < 3", "0 <= k1 < 3", "0 <= k2 < 3", "1 <= L <= 30"],
    timeout=300,
    shard={"k0": [0, 1, 2]},
    covers="every functional graph over 3 templates whose edges are include / render / extends (all contain a cycle reachable or not from t0): rendering t0 terminates with ContextDepthError, TemplateInheritanceError (or DisabledTagError for include-inside-render) for every context_depth_limit L, never RecursionError or another exception; sync and async",
    bounds="3 templates, one outgoing edge each: 27 targets x 27 kinds; L in 1..30 (the default)",
    grid=lambda: [(e0, k0, e1, k1, 0, k1, L) for e0 in range(3) for k0 in range(3) for e1 in range(3) for k1 in range(3) for L in (1, 3, 6, 30)],
)
def s_cycles(e0: int, k0: int, e1: int, k1: int, e2: int, k2: int, L: int) -> bool:
    args = [concrete_int(v, 0, 2) for v in (e0, k0, e1, k1, e2, k2)]
    L = concrete_int(L, 1, 30)

    def run() -> bool:  # the graph and the limit are concrete: the solver enumerates them, the real code runs outside the tracer
        env = _cyclic_env(*args)
        env.context_depth_limit = L
        for is_async in (False, True):
            try:
                t = env.get_template("t0")
                drive(t.render_async()) if is_async else t.render()
                return False  # every such graph has a cycle on the path from t0
            except (ContextDepthError, TemplateInheritanceError, DisabledTagError):
                pass  # include inside render is refused outright: that terminates too
            except Exception:  # noqa: BLE001
                return False
        return True

    return untraced(run)
