"""C19 - built-in filters obey their defining laws."""

from __future__ import annotations

from io import StringIO
from typing import List, Optional, Union

from vf.cond import cond

from .common import Environment, LiquidError, concrete_int, in_alpha, untraced

from liquid2 import RenderContext  # noqa: E402
from liquid2.shopify import Environment as ShopifyEnvironment  # noqa: E402

EXPLANATION = (
    "Each law is a postcondition over the real filter applied at template level "
    "({% assign r = x | f: a %}, result read back from the render context without stringification) "
    "on symbolic operands."
)
OUTSIDE = [
    "float arithmetic against exact decimal arithmetic on all finite floats (Decimal(str(float)) is the C shortest-repr algorithm): only the special float set of C02 is exercised",
    "strings/arrays longer than the stated bounds; unicode beyond the stated alphabets",
    "base64 on strings longer than 1 character (CrossHair's binascii model does not terminate on longer symbolic input)",
    "truncate with len(input) == n: documented behaviour is ambiguous, not asserted either way",
]

ENV = ShopifyEnvironment()
_T: dict[str, object] = {}


def ev(expr: str, **data):
    """Evaluate a Liquid expression through a real template; returns the raw Python value."""
    t = _T.get(expr)
    if t is None:
        t = _T[expr] = ENV.from_string("{% assign r = " + expr + " %}")
    ctx = RenderContext(t, global_data=data)
    t.render_with_context(ctx, StringIO())
    return ctx.locals.get("r")


def is_perm(a: list, b: list) -> bool:
    if len(a) != len(b):
        return False
    rest = list(b)
    for x in a:
        for i, y in enumerate(rest):
            if x is y or x == y:
                del rest[i]
                break
        else:
            return False
    return True


def is_subseq(sub: list, full: list) -> bool:
    i = 0
    for x in full:
        if i < len(sub) and (sub[i] is x):
            i += 1
    return i == len(sub)


# --- order -----------------------------------------------------------------------------
@cond(
    pre=["len(x) <= 3", "all(0 <= i <= 2 for i in x)"],
    timeout=120,
    covers="sort / sort_numeric of integers: output is a permutation of the input in ascending order; reverse is an involution and mirrors indices",
    bounds="list[int] len <= 3, ints 0..2 (sorted() realizes keys)",
    grid=lambda: [([],), ([2, 0, 1],), ([1, 1, 0],), ([2, 2, 2],)],
)
def k_sort_ints(x: List[int]) -> bool:
    for name in ("sort", "sort_numeric"):
        r = ev(f"x | {name}", x=x)
        if not (isinstance(r, list) and is_perm(r, x) and all(r[i] <= r[i + 1] for i in range(len(r) - 1))):
            return False
    rv = ev("x | reverse", x=x)
    if rv != [x[len(x) - 1 - i] for i in range(len(x))]:
        return False
    return ev("x | reverse | reverse", x=x) == x and x == x  # input untouched


@cond(
    pre=["len(x) <= 3"],
    timeout=120,
    covers="reverse on integers of any magnitude",
    bounds="list[int] len <= 3, unbounded ints",
    grid=lambda: [([],), ([10**30, -1, 0],)],
)
def k_reverse_unbounded(x: List[int]) -> bool:
    rv = ev("x | reverse", x=x)
    return rv == [x[len(x) - 1 - i] for i in range(len(x))] and ev("x | reverse | reverse", x=x) == x


NAT_ALPHA = "aAbB"


@cond(
    pre=["len(x) <= 3", "all(len(s) == 1 and s in NAT_ALPHA for s in x)"],
    timeout=200,
    covers="sort_natural: permutation ordered by lower-cased value; stable for equal keys",
    bounds="list[str] len <= 3, 1-char strings over {a A b B}",
    grid=lambda: [([],), (["b", "A", "a"],), (["B", "b", "A"],)],
)
def k_sort_natural(x: List[str]) -> bool:
    r = ev("x | sort_natural", x=x)
    if not (isinstance(r, list) and is_perm(r, x)):
        return False
    if not all(r[i].lower() <= r[i + 1].lower() for i in range(len(r) - 1)):
        return False
    # stability: equal keys keep input order
    for k in ("a", "b"):
        if [s for s in r if s.lower() == k] != [s for s in x if s.lower() == k]:
            return False
    return True


# --- selection over hashes ---------------------------------------------------------------
VALS = [None, False, True, 0, 1]


def _items(p0: bool, v0: int, p1: bool, v1: int, p2: bool, v2: int, n: int) -> list:
    vals = VALS
    spec = [(p0, v0), (p1, v1), (p2, v2)][:n]
    return [({"k": vals[v], "id": i} if p else {"id": i}) for i, (p, v) in enumerate(spec)]


_SEL_PRE = ["0 <= v0 < 5", "0 <= v1 < 5", "0 <= v2 < 5"]


@cond(
    pre=_SEL_PRE,
    timeout=240,
    timeout_thorough=1200,
    shard={"n": [1, 2, 3], "t": [1, 2, 3, 4]},
    covers="where/reject partition the input in order; find = first(where); find_index and has agree with find; string-key form == lambda form (with a value)",
    bounds="up to 3 hashes, key possibly missing (presence bits), values in {nil,false,true,0,1}, target in {false,true,0,1} (Liquid equality: a boolean equals only the same boolean)",
    grid=lambda: [(True, 3, False, 0, True, 4, 3, 3), (True, 0, True, 1, True, 2, 3, 4), (False, 0, False, 0, False, 0, 2, 4), (True, 4, True, 4, True, 4, 3, 4), (True, 1, True, 2, True, 0, 3, 1), (True, 1, True, 2, False, 0, 3, 2), (True, 3, True, 1, True, 4, 3, 1)],
)
def k_where_value(p0: bool, v0: int, p1: bool, v1: int, p2: bool, v2: int, n: int, t: int) -> bool:
    x = _items(bool(p0), concrete_int(v0, 0, 4), bool(p1), concrete_int(v1, 0, 4), bool(p2), concrete_int(v2, 0, 4), n)
    # the value domain is finite and every input is concrete from here on: run outside the tracer
    return untraced(lambda: _k_where_value(x, t))


def _liquid_eq(a: object, b: object) -> bool:
    if isinstance(a, bool) or isinstance(b, bool):
        return a is b
    return a == b


def _k_where_value(x: list, t: int) -> bool:
    tv = VALS[t]
    w = ev("x | where: 'k', t", x=x, t=tv)
    rj = ev("x | reject: 'k', t", x=x, t=tv)
    want = [i for i in x if "k" in i and i["k"] is not None and _liquid_eq(i["k"], tv)]
    if [i["id"] for i in w] != [i["id"] for i in want]:
        return False
    if not (is_subseq(w, x) and is_subseq(rj, x) and len(w) + len(rj) == len(x)):
        return False
    if any(a is b for a in w for b in rj):
        return False
    f = ev("x | find: 'k', t", x=x, t=tv)
    fi = ev("x | find_index: 'k', t", x=x, t=tv)
    h = ev("x | has: 'k', t", x=x, t=tv)
    if w:
        if f is not w[0] or fi is None or x[fi] is not w[0] or h is not True:
            return False
    elif f is not None or fi is not None or h is not False:
        return False
    # lambda forms
    wl = ev("x | where: i => i.k == t", x=x, t=tv)
    rl = ev("x | reject: i => i.k == t", x=x, t=tv)
    fl = ev("x | find: i => i.k == t", x=x, t=tv)
    fil = ev("x | find_index: i => i.k == t", x=x, t=tv)
    hl = ev("x | has: i => i.k == t", x=x, t=tv)
    return (
        [i["id"] for i in wl] == [i["id"] for i in w]
        and [i["id"] for i in rl] == [i["id"] for i in rj]
        and fl is f
        and fil == fi
        and hl == h
    )


@cond(
    pre=_SEL_PRE,
    timeout=240,
    timeout_thorough=1200,
    shard={"n": [1, 2, 3]},
    covers="truthy forms: where: 'k' / reject: 'k' / find / find_index / has without a value select items whose property is neither nil nor false; string-key form == lambda form",
    bounds="up to 3 hashes, key possibly missing, values in {nil,false,true,0,1,2}",
    grid=lambda: [(True, 3, False, 0, True, 1, 3), (True, 0, True, 1, True, 2, 3), (False, 0, False, 0, False, 0, 2)],
)
def k_where_truthy(p0: bool, v0: int, p1: bool, v1: int, p2: bool, v2: int, n: int) -> bool:
    x = _items(bool(p0), concrete_int(v0, 0, 4), bool(p1), concrete_int(v1, 0, 4), bool(p2), concrete_int(v2, 0, 4), n)
    # the value domain is finite and every input is concrete from here on: run outside the tracer
    return untraced(lambda: _k_where_truthy(x))


def _k_where_truthy(x: list) -> bool:
    want = [i for i in x if i.get("k") is not None and i.get("k") is not False]
    w = ev("x | where: 'k'", x=x)
    rj = ev("x | reject: 'k'", x=x)
    if [i["id"] for i in w] != [i["id"] for i in want]:
        return False
    if not (is_subseq(w, x) and is_subseq(rj, x) and len(w) + len(rj) == len(x)):
        return False
    f = ev("x | find: 'k'", x=x)
    fi = ev("x | find_index: 'k'", x=x)
    h = ev("x | has: 'k'", x=x)
    if w:
        if f is not w[0] or fi is None or x[fi] is not w[0] or h is not True:
            return False
    elif f is not None or fi is not None or h is not False:
        return False
    wl = ev("x | where: i => i.k", x=x)
    rl = ev("x | reject: i => i.k", x=x)
    return [i["id"] for i in wl] == [i["id"] for i in w] and [i["id"] for i in rl] == [i["id"] for i in rj] and ev("x | has: i => i.k", x=x) == h


def _leq(a, b) -> bool:
    """Liquid equality on the value domain used here: booleans are not numbers."""
    if isinstance(a, bool) or isinstance(b, bool):
        return isinstance(a, bool) and isinstance(b, bool) and a == b
    return a == b


_NIL_T = ENV.from_string("{% if v == nil %}1{% endif %}")


def _is_nil(v) -> bool:
    return _NIL_T.render(v=v) == "1"


def _ids(r) -> list:
    return [i["id"] for i in r]


@cond(
    pre=_SEL_PRE,
    timeout=240,
    timeout_thorough=1200,
    shard={"n": [1, 2, 3]},
    covers="property-name form == lambda form for uniq, compact, map, sum, sort_natural and sort_numeric on hashes whose key may be missing or nil; uniq: 'k' keeps exactly the first item per distinct property value under Liquid equality (true is not 1, a missing property is not nil); compact: 'k' keeps exactly the items whose property is present and not nil, in order; map yields one value per item",
    bounds="up to 3 hashes, key possibly missing (presence bits), values in {nil,false,true,0,1}",
    grid=lambda: [(True, 4, True, 2, True, 4, 3), (False, 0, True, 0, False, 0, 3), (True, 3, True, 1, True, 0, 3), (True, 0, False, 0, True, 0, 3), (True, 1, True, 3, False, 0, 3), (False, 0, False, 0, False, 0, 2)],
)
def k_keyed_forms(p0: bool, v0: int, p1: bool, v1: int, p2: bool, v2: int, n: int) -> bool:
    x = _items(bool(p0), concrete_int(v0, 0, 4), bool(p1), concrete_int(v1, 0, 4), bool(p2), concrete_int(v2, 0, 4), n)
    # the value domain is finite and every input is concrete from here on: run outside the tracer
    return untraced(lambda: _k_keyed_forms(x))


def _k_keyed_forms(x: list) -> bool:
    # uniq
    u = ev("x | uniq: 'k'", x=x)
    seen: list = []
    want = []
    for i in x:
        key = ("missing",) if "k" not in i else ("v", i["k"])
        if not any(k[0] == key[0] and (k[0] == "missing" or _leq(k[1], key[1])) for k in seen):
            seen.append(key)
            want.append(i)
    if _ids(u) != _ids(want) or _ids(ev("x | uniq: i => i.k", x=x)) != _ids(u):
        return False
    # compact
    c = ev("x | compact: 'k'", x=x)
    if _ids(c) != [i["id"] for i in x if i.get("k") is not None] or _ids(ev("x | compact: i => i.k", x=x)) != _ids(c):
        return False
    # map / sum / sorts: the two forms agree
    m1, m2 = ev("x | map: 'k'", x=x), ev("x | map: i => i.k", x=x)
    if len(m1) != len(x) or len(m2) != len(x):
        return False
    for a, b, i in zip(m1, m2, x):
        if "k" in i and i["k"] is not None:
            if not (a is i["k"] and b is i["k"]):
                return False
        elif not (_is_nil(a) and _is_nil(b)):
            return False
    if ev("x | sum: 'k'", x=x) != ev("x | sum: i => i.k", x=x):
        return False
    for f in ("sort_natural", "sort_numeric"):
        a, b = ev("x | " + f + ": 'k'", x=x), ev("x | " + f + ": i => i.k", x=x)
        if _ids(a) != _ids(b) or sorted(_ids(a)) != _ids(x):
            return False
    return True


VALUE_POOL = [1, True, 0, False, None, "1", 1.0]


@cond(
    pre=["0 <= a < 7", "0 <= b < 7", "0 <= c < 7"],
    timeout=120,
    covers="uniq without arguments over mixed scalars: two items are duplicates exactly when Liquid's == says so (1 and 1.0 are, 1 and true / 0 and false / 1 and '1' / nil and false are not), whatever their order",
    bounds="3 items from {1, true, 0, false, nil, '1', 1.0} (solver-chosen)",
    grid=lambda: [(0, 1, 0), (1, 0, 1), (2, 3, 4), (3, 2, 2), (0, 6, 5), (4, 3, 4)],
)
def k_uniq_values(a: int, b: int, c: int) -> bool:
    x = [VALUE_POOL[concrete_int(k, 0, 6)] for k in (a, b, c)]
    want: list = []
    for i in x:
        if not any(_leq(i, w) for w in want):
            want.append(i)
    got = ev("x | uniq", x=x)
    return len(got) == len(want) and all(g is w or (_leq(g, w) and type(g) is type(w)) for g, w in zip(got, want))


@cond(
    pre=["len(x) <= 4", "all(0 <= i <= 2 for i in x)"],
    timeout=200,
    covers="uniq keeps exactly the first occurrence of every value, in order; compact removes exactly the nil items; first/last/size/concat/map against their definitions",
    bounds="list[int] len <= 4 over 0..2 (0 stands for nil in the compact law)",
    grid=lambda: [([],), ([1, 1, 2, 1],), ([0, 2, 0, 2],)],
)
def k_uniq_compact(x: List[int]) -> bool:
    u = ev("x | uniq", x=x)
    want = []
    for i in x:
        if i not in want:
            want.append(i)
    if u != want:
        return False
    y = [None if i == 0 else i for i in x]
    if ev("y | compact", y=y) != [i for i in y if i is not None]:
        return False
    if ev("x | first", x=x) != (x[0] if x else None) or ev("x | last", x=x) != (x[-1] if x else None):
        return False
    if ev("x | size", x=x) != len(x) or ev("x | concat: x", x=x) != x + x:
        return False
    h = [{"k": i} if i else {} for i in x]
    m = ev("h | map: 'k'", h=h)
    return len(m) == len(x) and all((m[j] == x[j]) if x[j] else (m[j] == None) for j in range(len(x)))  # noqa: E711


@cond(
    pre=["len(x) <= 3", "all(0 <= i <= 2 for i in x)", "-4 <= a <= 4", "0 <= b <= 4"],
    timeout=200,
    covers="slice: a | slice: start, length equals Python slicing x[start:start+length] with Liquid's negative-start rule, on arrays and strings",
    bounds="list[int] len <= 3; start -4..4; length 0..4 (a negative length is undocumented and not asserted)",
    grid=lambda: [([0, 1, 2], 1, 2), ([0, 1, 2], -2, 5), ([0, 1, 2], -4, 1), ([], 0, 1), ([0, 1, 2], 3, 1), ([1], 0, 0)],
)
def k_slice(x: List[int], a: int, b: int) -> bool:
    n = len(x)
    start = a if a >= 0 else max(n + a, 0)
    if b <= 0:
        want = []
    else:
        # a negative start counts from the end; the slice never wraps around
        want = x[start : start + b] if a >= 0 or n + a >= 0 else x[0 : max(n + a + b, 0)]
    got = ev("x | slice: a, b", x=x, a=a, b=b)
    s = "".join(str(i) for i in x)
    gs = ev("s | slice: a, b", s=s, a=a, b=b)
    return got == want and gs == "".join(str(i) for i in want)


# --- strings -----------------------------------------------------------------------------
SJ_ALPHA = "a,"


@cond(
    pre=["len(x) <= 3", "in_alpha(x, SJ_ALPHA)", "1 <= len(sep) <= 2", "in_alpha(sep, SJ_ALPHA)"],
    timeout=200,
    covers="join undoes split: for non-empty x != sep, (x | split: sep | join: sep) == x; split agrees with str.split",
    bounds="x over {a ,} len <= 3; sep over {a ,} len 1..2",
    grid=lambda: [("a,a", ","), (",", ","), ("", ","), ("a,,", ",,"), ("aaa", "a")],
)
def k_split_join(x: str, sep: str) -> bool:
    parts = ev("x | split: sep", x=x, sep=sep)
    if not x or x == sep:
        return parts == []
    if parts != x.split(sep):
        return False
    return ev("x | split: sep | join: sep", x=x, sep=sep) == x


URL_ALPHA = "%+ /éa2"


@cond(
    pre=["len(x) <= N", "in_alpha(x, URL_ALPHA)"],
    consts={"N": 2},
    consts_thorough={"N": 3},
    timeout=200,
    timeout_thorough=900,
    covers="url_decode undoes url_encode; url_encode output contains only unreserved characters, % and +",
    bounds="x over {% + space / e-acute a 2} len <= 2 (thorough 3)",
    grid=lambda: [("", 9), ("%2", 9), ("+ /", 9), ("é%a", 9)],
)
def k_url_roundtrip(x: str, N: int) -> bool:
    e = ev("x | url_encode", x=x)
    if any(c in e for c in " /é<>&'\""):
        return False
    return ev("x | url_encode | url_decode", x=x) == x


B64_ALPHA = "aé+"


@cond(
    pre=["len(x) <= 1", "in_alpha(x, B64_ALPHA)"],
    timeout=200,
    covers="base64_decode undoes base64_encode (standard and url-safe)",
    bounds="x over {a e-acute +} len <= 1 (binascii model)",
    grid=lambda: [("",), ("a",), ("é+",), ("a" * 5,), ("~~~?",)],
)
def k_base64_roundtrip(x: str) -> bool:
    return ev("x | base64_encode | base64_decode", x=x) == x and ev("x | base64_url_safe_encode | base64_url_safe_decode", x=x) == x


ESC_ALPHA = "&<a;lt\"'"


@cond(
    pre=["len(x) <= 3", "in_alpha(x, ESC_ALPHA)"],
    timeout=300,
    covers="escape output has no raw < > \" ' ; escape_once is idempotent; escape_once after escape changes nothing",
    bounds="x over {& < a ; l t \" '} len <= 3",
    grid=lambda: [("",), ("<a",), ("&lt",), ("&lt;",), ("&&\"",), ("it's",), ("'&#x27;",), ("&#39;'",)],
)
def k_escape(x: str) -> bool:
    e = ev("x | escape", x=x)
    if any(c in e for c in "<>\"'"):
        return False
    once = ev("x | escape_once", x=x)
    if ev("o | escape_once", o=once) != once:
        return False
    return ev("x | escape | escape_once", x=x) == e


STR_ALPHA = " aB\n"


@cond(
    pre=["len(x) <= N", "in_alpha(x, STR_ALPHA)", "len(y) <= 1", "in_alpha(y, STR_ALPHA)"],
    consts={"N": 2},
    consts_thorough={"N": 3},
    timeout=200,
    timeout_thorough=900,
    covers="append/prepend/remove/remove_first/replace/replace_first agree with their Python string definitions",
    bounds="x over {space a B LF} len <= 2 (thorough 3); y over the same alphabet len <= 1",
    grid=lambda: [("", "", 9), (" aB", "a", 9), ("aBa", "a", 9), ("\na ", " ", 9), ("aaa", "aa", 9)],
)
def k_string_defs(x: str, y: str, N: int) -> bool:
    if ev("x | append: y", x=x, y=y) != x + y or ev("x | prepend: y", x=x, y=y) != y + x:
        return False
    if ev("x | remove: y", x=x, y=y) != x.replace(y, "") or ev("x | remove_first: y", x=x, y=y) != x.replace(y, "", 1):
        return False
    return ev("x | replace: y, 'Z'", x=x, y=y) == x.replace(y, "Z") and ev("x | replace_first: y, 'Z'", x=x, y=y) == x.replace(y, "Z", 1)


@cond(
    pre=["len(x) <= 3", "in_alpha(x, STR_ALPHA)"],
    timeout=200,
    covers="strip/lstrip/rstrip/upcase/downcase agree with their Python string definitions",
    bounds="x over {space a B LF} len <= 3",
    grid=lambda: [("",), (" aB",), ("\na ",)],
)
def k_string_unary(x: str) -> bool:
    if ev("x | strip", x=x) != x.strip() or ev("x | lstrip", x=x) != x.lstrip() or ev("x | rstrip", x=x) != x.rstrip():
        return False
    return ev("x | upcase", x=x) == x.upper() and ev("x | downcase", x=x) == x.lower()


@cond(
    pre=["len(x) <= 4", "in_alpha(x, 'ab ')", "0 <= n <= 6", "len(e) <= 2", "in_alpha(e, '.')"],
    timeout=300,
    covers="truncate: unchanged when shorter than n; otherwise the result ends with the ellipsis, starts with a prefix of the input and is no longer than max(n, len(ellipsis)); truncatewords: at most n words, unchanged (modulo whitespace normalisation) when fewer",
    bounds="x over {a b space} len <= 4; n 0..6; ellipsis '.'*0..2",
    grid=lambda: [("abab", 2, ".."), ("ab", 3, "."), ("a b", 1, "."), ("", 0, ""), ("abab", 1, "..")],
)
def k_truncate(x: str, n: int, e: str) -> bool:
    r = ev("x | truncate: n, e", x=x, n=n, e=e)
    if len(x) < n:
        if r != x:
            return False
    elif len(x) > n:
        if not r.endswith(e) or len(r) > max(n, len(e)) or not x.startswith(r[: len(r) - len(e)]):
            return False
    w = ev("x | truncatewords: n, e", x=x, n=n, e=e)
    words = x.split()
    m = max(n, 1)
    if len(words) < m:
        return w == " ".join(words)
    if len(words) > m:
        return w == " ".join(words[:m]) + e
    return w in (" ".join(words), " ".join(words) + e)


# --- arithmetic --------------------------------------------------------------------------
@cond(
    pre=["True"],
    timeout=120,
    covers="plus/minus/abs/at_least/at_most on integers of any magnitude equal exact integer arithmetic; minus undoes plus",
    bounds="a, b unbounded ints",
    grid=lambda: [(0, 0), (10**30, -(10**30) + 1), (-7, 2), (2**63, 1)],
)
def k_additive(a: int, b: int) -> bool:
    if ev("a | plus: b", a=a, b=b) != a + b or ev("a | minus: b", a=a, b=b) != a - b:
        return False
    if ev("a | plus: b | minus: b", a=a, b=b) != a:
        return False
    if ev("a | abs", a=a) != (a if a >= 0 else -a):
        return False
    return ev("a | at_least: b", a=a, b=b) == (a if a >= b else b) and ev("a | at_most: b", a=a, b=b) == (a if a <= b else b)


@cond(
    pre=["-6 <= b <= 6"],
    timeout=200,
    shard={"b": list(range(-6, 7))},
    covers="times/divided_by/modulo: exact integer results, floor division, divided_by(a,b)*b + modulo(a,b) == a; division by zero is a LiquidError",
    bounds="a unbounded int, b in -6..6 (one shard per b; both unbounded is nonlinear for the solver)",
    grid=lambda: [(7, 2), (-7, 2), (7, -2), (10**30 + 1, 6), (5, 0)],
)
def k_multiplicative(a: int, b: int) -> bool:
    if ev("a | times: b", a=a, b=b) != a * b:
        return False
    if b == 0:
        for f in ("divided_by", "modulo"):
            try:
                ev(f"a | {f}: b", a=a, b=b)
                return False
            except LiquidError:
                pass
        return True
    q = ev("a | divided_by: b", a=a, b=b)
    r = ev("a | modulo: b", a=a, b=b)
    return q == a // b and q * b + r == a and (0 <= r < b if b > 0 else b < r <= 0)


@cond(
    pre=["-3 <= a <= 3"],
    timeout=120,
    covers="ceil/floor/round on integers (incl. x 2^62) are the identity; numeric strings coerce to their integer",
    bounds="a in -3..3, optionally x 2^62 (math.ceil/floor realize ints)",
    grid=lambda: [(0, False), (3, True), (-3, True)],
)
def k_int_rounding(a: int, big: bool) -> bool:
    v = a * (1 << 62) if big else a
    if ev("a | ceil", a=v) != v or ev("a | floor", a=v) != v or ev("a | round", a=v) != v:
        return False
    s = str(concrete_int(a, -3, 3) * ((1 << 62) if big else 1))
    return ev("s | plus: 0", s=s) == v and ev("s | times: 1", s=s) == v and ev("0 | minus: s", s=s) == -v


@cond(pre=["len(x) <= 3", "all(0 <= i <= 2 for i in x)"], twin=True, timeout=60, covers="reachability twin: sort changes some inputs")
def twin_sort(x: List[int]) -> bool:
    return ev("x | sort", x=x) == x


def _warm() -> None:
    """Parse every expression template at import (never under CrossHair's tracer)."""
    import os

    if os.environ.get("VF_WORKER") != "1":
        return
    from vf.cond import conditions_of
    import sys

    for c in conditions_of(sys.modules[__name__]):
        if c.grid:
            for pt in c.grid():
                try:
                    c.fn(*pt)
                except Exception:  # noqa: BLE001
                    pass


_warm()
