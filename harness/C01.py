"""C01 - rendering implements the documented Liquid semantics."""

from __future__ import annotations

from typing import List, Union

from vf.cond import cond

from .common import drive, Environment, LiquidError, concrete_int, in_alpha, seed, tier

from liquid2.builtin.expressions import _contains, _eq, _lt, is_truthy  # noqa: E402
from liquid2.stringify import to_liquid_string  # noqa: E402
from liquid2.token import WhitespaceControl as WC  # noqa: E402

from ref import gen as G  # noqa: E402
from ref import liquid_ref as R  # noqa: E402

EXPLANATION = (
    "Differential between the real engine and a 500-line reference interpreter written from the documentation "
    "(ref/liquid_ref.py, never imports liquid2): programs come from a deterministic grammar-based generator "
    "(ref/gen.py), data are solver variables, the configuration (default_trim, blank-block suppression) is a solver choice. "
    "Kernels: value semantics (truthiness, equality, ordering, membership, string forms), operator precedence, loop slicing and loop helper variables."
)
OUTSIDE = [
    "programs beyond the generator's depth 2 and beyond the first 24 (thorough 240) generated programs",
    "macros, lambdas, array literals and template strings inside the generated differential (they have the 10 fixed programs of k_lambda); include / render (C07's subject); filters other than default size first last join plus minus times upcase downcase append prepend and the lambda filters (C19 covers their laws)",
    "`not` applied to an unparenthesised binary expression (undocumented precedence); comparison chains a == b == c; string iterables in `for`",
    "data outside: ints -1..3, 1-character strings over {a B space}, lists of up to 2 ints 0..2",
]


class _NoSuppress(Environment):
    suppress_blank_control_flow_blocks = False


TRIMS = ["+", "-", "~"]
_WC = {"+": WC.PLUS, "-": WC.MINUS, "~": WC.TILDE}
ENVS = {(d, s): (Environment if s else _NoSuppress)(default_trim=_WC[d]) for d in TRIMS for s in (True, False)}
CONFIGS = [(d, s) for d in TRIMS for s in (True, False)]

N_QUICK, N_THOROUGH = 24, 240


def program_ids() -> list[int]:
    if tier() == "thorough":
        return list(range(N_THOROUGH))
    base = (seed() * N_QUICK) % N_THOROUGH
    return [(base + k) % N_THOROUGH for k in range(N_QUICK)]


PROGRAMS = {i: G.program(i) for i in range(N_THOROUGH)}
SOURCES = {i: R.show(p) for i, p in PROGRAMS.items()}
_PARSED: dict = {}
for _i in (program_ids() if tier() != "thorough" else range(N_THOROUGH)):
    for _c in CONFIGS:
        try:
            _PARSED[(_i, _c)] = ENVS[_c].from_string(SOURCES[_i])
        except LiquidError as _e:
            _PARSED[(_i, _c)] = None


def _engine(i: int, cfg, data: dict):
    t = _PARSED.get((i, cfg))
    if t is None:
        return ("parse-error",)
    try:
        return ("ok", t.render(**data))
    except LiquidError:
        return ("err",)


def _reference(i: int, cfg, data: dict):
    try:
        return ("ok", R.render(PROGRAMS[i], data, default_trim=cfg[0], suppress_blank=cfg[1]))
    except R.RefError:
        return ("err",)


@cond(
    pre=["-1 <= x <= 3", "0 <= n <= 3", "len(s) <= 1", "in_alpha(s, 'aB ')", "len(a) <= 2", "all(0 <= k <= 2 for k in a)", "0 <= cfg < 6"],
    timeout=200,
    timeout_thorough=400,
    shard={"i": program_ids()},
    shard_thorough={"i": list(range(N_THOROUGH))},
    split={"cfg": list(range(6))},
    path_timeout=30,
    covers="render(program, data) equals the reference interpreter's output (or both fail) for every data assignment and every configuration: literal text modulo whitespace control, output stringification, if/elsif/else, unless, case/when, for with limit/offset/continue/reversed/else/break/continue and forloop.*, assign/capture scoping, counters, cycles, echo, liquid, raw, comments, with, ranges, ternaries, and/or/not/comparison operators, empty/blank/nil, 12 filters",
    bounds="24 generated programs per run (selected by VERIF_SEED; thorough: 240), nesting depth <= 2; x int -1..3, n int 0..3, b bool, s str over {a B space} len <= 1, a list len <= 2 of ints 0..2, u undefined; 3 default_trim x 2 suppression settings (solver choice)",
    grid=lambda: [(i, x, 2, b, s, a, c) for i in program_ids() for x in (-1, 1, 3) for b in (False, True) for s in ("", "a") for a in ([], [2, 0]) for c in range(6)],
)
def d_program(i: int, x: int, n: int, b: bool, s: str, a: List[int], cfg: int) -> bool:
    c = CONFIGS[concrete_int(cfg, 0, 5)]
    data = {"x": x, "n": n, "b": b, "s": s, "a": a}
    return _engine(i, c, data) == _reference(i, c, dict(data))


_TWIN_T = ENVS[("+", True)].from_string("<{{ x }}>")


@cond(pre=["-1 <= x <= 3"], twin=True, timeout=60, covers="reachability twin: engine and reference outputs depend on the data (a fixed program, independent of VERIF_SEED)")
def twin_program(x: int) -> bool:
    prog = [("text", "<"), ("out", ("var", "x", []), None), ("text", ">")]
    return _TWIN_T.render(x=x) == R.render(prog, {"x": 0})


# ---- value semantics -------------------------------------------------------------------------
V = Union[int, bool, None, str, List[int]]
_VPRE = [
    "not isinstance(p, str) or (len(p) <= 1 and in_alpha(p, 'a1 '))",
    "not isinstance(q, str) or (len(q) <= 1 and in_alpha(q, 'a1 '))",
    "not isinstance(p, list) or (len(p) <= 1 and all(0 <= k <= 1 for k in p))",
    "not isinstance(q, list) or (len(q) <= 1 and all(0 <= k <= 1 for k in q))",
    "not isinstance(p, int) or -2 <= p <= 2",
    "not isinstance(q, int) or -2 <= q <= 2",
]


class _Tok:
    start = 0
    stop = 0
    source = ""
    type_ = None


@cond(
    pre=_VPRE,
    timeout=200,
    covers="is_truthy (only nil/false are falsy), == (true != 1, nil == nil, type-strict), < (numbers, strings; bool never less; other mixes are errors), contains (substring / membership) agree with the documented truth tables",
    bounds="p, q: int -2..2 | bool | None | str over {a 1 space} len <= 1 | list[int] len <= 1 over 0..1",
    grid=lambda: [(p, q) for p in (0, 1, True, False, None, "", "a", "1", [], [1]) for q in (0, 1, True, False, None, "", "a", "1", [], [1])],
)
def k_values(p: V, q: V) -> bool:
    if is_truthy(p) != R.truthy(p):
        return False
    if _eq(p, q) != R.eq(p, q) or _eq(p, q) != _eq(q, p):
        return False
    try:
        want = ("ok", R.lt(p, q))
    except R.RefError:
        want = ("err",)
    try:
        got = ("ok", _lt(_Tok(), p, q))
    except LiquidError:
        got = ("err",)
    if got != want:
        return False
    if isinstance(q, (int, str)) and not isinstance(q, bool):
        try:
            want = ("ok", R.contains(p, q))
        except R.RefError:
            want = ("err",)
        try:
            got = ("ok", bool(_contains(_Tok(), p, q)))
        except LiquidError:
            got = ("err",)
        if got != want:
            return False
    return True


@cond(
    pre=["not isinstance(p, str) or (len(p) <= 2 and in_alpha(p, 'aB <'))", "not isinstance(p, list) or (len(p) <= 2 and all(0 <= k <= 2 for k in p))", "not isinstance(p, int) or -10 <= p <= 10"],
    timeout=120,
    covers="Liquid string form of values: true/false, nil -> '', integers, strings verbatim, arrays concatenated, ranges as a..b",
    bounds="p: int -10..10 | bool | None | str len <= 2 | list[int] len <= 2; ranges (lo..hi) with lo, hi in -2..3",
    grid=lambda: [(p, 1, 2) for p in (0, -7, True, False, None, "", "a<", [], [1, 2])],
)
def k_string_form(p: V, lo: int, hi: int) -> bool:
    if to_liquid_string(p) != R.to_s(p):
        return False
    if -2 <= lo <= 3 and -2 <= hi <= 3 and lo <= hi:
        r = range(concrete_int(lo, -2, 3), concrete_int(hi, -2, 3) + 1)
        return to_liquid_string(r) == R.to_s(r)
    return True


# ---- precedence --------------------------------------------------------------------------------
BASE = ENVS[("+", True)]
OPS = ["and", "or"]
PREC_SRC = {}
for _o1 in OPS:
    for _o2 in OPS:
        for _o3 in OPS:
            PREC_SRC[(_o1, _o2, _o3)] = (
                BASE.from_string("{% if p " + _o1 + " q " + _o2 + " r " + _o3 + " t %}1{% else %}0{% endif %}"),
                BASE.from_string("{% if p " + _o1 + " x < y " + _o2 + " r " + _o3 + " x == y %}1{% else %}0{% endif %}"),
                BASE.from_string("{% if (p " + _o1 + " q) " + _o2 + " (r " + _o3 + " t) %}1{% else %}0{% endif %}"),
                BASE.from_string("{{ 'Y' if p " + _o1 + " q " + _o2 + " r else 'N' }}"),
            )


def _fold(vals: list, ops: list) -> bool:
    """`and` binds more tightly than `or`; both associate to the left (the result is the same either way)."""
    groups = [[vals[0]]]
    for v, o in zip(vals[1:], ops):
        if o == "and":
            groups[-1].append(v)
        else:
            groups.append([v])
    return any(all(g) for g in groups)


@cond(
    pre=["0 <= o1 < 2", "0 <= o2 < 2", "0 <= o3 < 2", "-1 <= x <= 1", "-1 <= y <= 1"],
    timeout=200,
    covers="`and` binds more tightly than `or`, comparison operators bind more tightly than both, parentheses group, for every operator triple and every operand valuation (if tag and ternary condition)",
    bounds="8 operator triples x 4 program shapes; p, q, r, t booleans; x, y in -1..1",
    grid=lambda: [(a, b, c, p, q, r, t, 0, 1) for a in (0, 1) for b in (0, 1) for c in (0, 1) for p in (False, True) for q in (False, True) for r in (False, True) for t in (False, True)],
)
def k_precedence(o1: int, o2: int, o3: int, p: bool, q: bool, r: bool, t: bool, x: int, y: int) -> bool:
    ops = [OPS[concrete_int(o1, 0, 1)], OPS[concrete_int(o2, 0, 1)], OPS[concrete_int(o3, 0, 1)]]
    t0, t1, t2, t3 = PREC_SRC[tuple(ops)]
    d = {"p": p, "q": q, "r": r, "t": t, "x": x, "y": y}
    if t0.render(**d) != ("1" if _fold([p, q, r, t], ops) else "0"):
        return False
    if t1.render(**d) != ("1" if _fold([p, x < y, r, x == y], ops) else "0"):
        return False
    left = (p and q) if ops[0] == "and" else (p or q)
    right = (r and t) if ops[2] == "and" else (r or t)
    if t2.render(**d) != ("1" if ((left and right) if ops[1] == "and" else (left or right)) else "0"):
        return False
    return t3.render(**d) == ("Y" if _fold([p, q, r], ops[:2]) else "N")


# ---- loops -------------------------------------------------------------------------------------
LOOP_T = [
    BASE.from_string("{% for i in a limit: l offset: o %}{{ i }}{% else %}E{% endfor %}|{% for i in a offset: continue %}{{ i }}{% endfor %}"),
    BASE.from_string("{% for i in a reversed limit: l %}{{ i }}{% endfor %}|{% for i in a offset: continue limit: 1 %}{{ i }}{% endfor %}|{% for i in a offset: continue %}{{ i }}{% endfor %}"),
    BASE.from_string("{% for i in a offset: o reversed %}{{ forloop.index }}{{ forloop.index0 }}{{ forloop.rindex }}{{ forloop.rindex0 }}{{ forloop.first }}{{ forloop.last }}{{ forloop.length }},{% endfor %}"),
    BASE.from_string("{% for row in rows %}[{% for x in row limit: 2 offset: continue %}{{ x }}{% else %}none{% endfor %}]{% endfor %}|{% for j in (1..l) %}<{% for k in (1..j) limit: 1 offset: continue %}{{ k }}{% else %}e{% endfor %}>{% endfor %}"),
    BASE.from_string("{% for i in a %}{% for j in a limit: l %}{{ forloop.parentloop.index }}{{ forloop.index }}{% if j == o %}{% break %}{% endif %}{% endfor %};{% if i == l %}{% continue %}{% endif %}{{ i }}{% endfor %}"),
]
LOOP_P = [
    [("for", "i", ("var", "a", []), ("var", "l", []), ("var", "o", []), False, [("out", ("var", "i", []))], [("text", "E")]), ("text", "|"),
     ("for", "i", ("var", "a", []), None, "continue", False, [("out", ("var", "i", []))], None)],
    [("for", "i", ("var", "a", []), ("var", "l", []), None, True, [("out", ("var", "i", []))], None), ("text", "|"),
     ("for", "i", ("var", "a", []), ("lit", 1), "continue", False, [("out", ("var", "i", []))], None), ("text", "|"),
     ("for", "i", ("var", "a", []), None, "continue", False, [("out", ("var", "i", []))], None)],
    [("for", "i", ("var", "a", []), None, ("var", "o", []), True, [("out", ("var", "forloop", [k])) for k in ("index", "index0", "rindex", "rindex0", "first", "last", "length")] + [("text", ",")], None)],
    [("for", "row", ("var", "rows", []), None, None, False, [("text", "["), ("for", "x", ("var", "row", []), ("lit", 2), "continue", False, [("out", ("var", "x", []))], [("text", "none")]), ("text", "]")], None),
     ("text", "|"),
     ("for", "j", ("range", ("lit", 1), ("var", "l", [])), None, None, False, [("text", "<"), ("for", "k", ("range", ("lit", 1), ("var", "j", [])), ("lit", 1), "continue", False, [("out", ("var", "k", []))], [("text", "e")]), ("text", ">")], None)],
    [("for", "i", ("var", "a", []), None, None, False, [
        ("for", "j", ("var", "a", []), ("var", "l", []), None, False, [("out", ("var", "forloop", ["parentloop", "index"])), ("out", ("var", "forloop", ["index"])),
                                                                 ("if", ("cmp", "==", ("var", "j", []), ("var", "o", [])), [("break",)], [], None)], None),
        ("text", ";"), ("if", ("cmp", "==", ("var", "i", []), ("var", "l", [])), [("continue",)], [], None), ("out", ("var", "i", []))], None)],
]


@cond(
    pre=["len(a) <= 3", "all(0 <= k <= 3 for k in a)", "-2 <= l <= 4", "-2 <= o <= 4"],
    timeout=240,
    shard={"i": [0, 1, 2, 3, 4], "is_async": [False, True]},
    covers="for loops: limit/offset (negative, zero, beyond the end), offset: continue after a limited loop and when the same loop resumes over a shorter or longer sequence, reversed, else, every forloop helper variable at every position, parentloop, break/continue at data-dependent positions - equal to the reference, through render() and render_async()",
    bounds="list len <= 3 of ints 0..3; limit, offset in -2..4 (islice realizes ints); 5 programs",
    grid=lambda: [(i, a, l, o, s) for i in range(5) for a in ([], [1], [3, 1, 2]) for l in (-1, 0, 1, 4) for o in (-1, 0, 2, 4) for s in (False, True)],
)
def k_loops(i: int, a: List[int], l: int, o: int, is_async: bool) -> bool:
    # rows: the same loop (same variable and iterable text) runs over sequences of different length
    data = {"a": a, "l": l, "o": o, "rows": [a, [7], a[:1], a + a]}
    try:
        got = ("ok", drive(LOOP_T[i].render_async(**data)) if is_async else LOOP_T[i].render(**data))
    except LiquidError:
        got = ("err",)
    try:
        want = ("ok", R.render(LOOP_P[i], dict(data)))
    except R.RefError:
        want = ("err",)
    return got == want


# ---- lambdas, array literals, macros, template strings (quantifier items outside the generated grammar) ----
def _lst(xs) -> str:
    return ",".join(str(v) for v in xs)


LAMBDA = [
    ("{% assign x = 'o' %}{% assign h = a | find: x => x == n %}[{{ h }}|{{ x }}]",
     lambda a, n: "[" + next((str(v) for v in a if v == n), "") + "|o]"),
    ("{% assign x = 'o' %}[{{ a | find_index: x => x >= n }}|{{ x }}]",
     lambda a, n: "[" + next((str(k) for k, v in enumerate(a) if v >= n), "") + "|o]"),
    ("{% assign x = 'o' %}[{{ a | has: x => x == n }}|{{ x }}]",
     lambda a, n: "[" + ("true" if n in a else "false") + "|o]"),
    ("{% for i in a %}{% assign t = a | has: x => x == i %}{{ t }}{% endfor %}[{{ i }}{{ forloop.index }}{{ x }}]",
     lambda a, n: "true" * len(a) + "[]"),
    ("{% assign x = 'o' %}{{ a | where: x => x > n | join: ',' }}|{{ a | reject: x => x > n | join: ',' }}|{{ a | map: x => x | join: ',' }}|{{ x }}",
     lambda a, n: _lst(v for v in a if v > n) + "|" + _lst(v for v in a if not v > n) + "|" + _lst(a) + "|o"),
    ("{{ a | where: (x, j) => j >= n | join: ',' }}|{{ x }}{{ j }}|{{ a | find: (x, j) => j == n }}|{{ x }}{{ j }}",
     lambda a, n: _lst(v for k, v in enumerate(a) if k >= n) + "||" + (str(a[n]) if 0 <= n < len(a) else "") + "|"),
    ("{% with x: 5 %}{% assign t = a | find: y => y == n %}{{ x }}{{ y }}{% endwith %}[{{ x }}{{ y }}]{% for i in (1..2) %}{% assign t = a | has: y => y == n %}{% endfor %}[{{ i }}{{ y }}]",
     lambda a, n: "5[][]"),
    ("{% assign b = a[0], n, 'k' %}{{ b | join: '-' }}|{{ b | size }}|{% for v in b %}{{ v }}{% endfor %}|{% for v in n, 'q' %}{{ v }}{% endfor %}",
     lambda a, n: "-".join([str(a[0]) if a else "", str(n), "k"]) + "|3|" + (str(a[0]) if a else "") + str(n) + "k|" + str(n) + "q"),
    ("{% macro m, p, q: 7 %}({{ p }}{{ q }}{{ n }}{{ z }}){% assign z = 1 %}{% endmacro %}{% assign z = 'Z' %}{% call m, n %}{% call m, 1, q: n %}{% call m %}{{ z }}",
     lambda a, n: "(" + str(n) + "7" + str(n) + ")(1" + str(n) + str(n) + ")(7" + str(n) + ")Z"),
    ("{{ \"n=${n}, first=${a | first}, ${ 'x' | upcase }\" }}|{% assign s = 'v${n}' | append: \"${a.size}\" %}{{ s }}",
     lambda a, n: "n=" + str(n) + ", first=" + (str(a[0]) if a else "") + ", X|v" + str(n) + str(len(a))),
]
LAMBDA_T = [BASE.from_string(src) for src, _ in LAMBDA]


@cond(
    pre=["len(a) <= 3", "all(0 <= k <= 2 for k in a)", "0 <= n <= 3"],
    timeout=240,
    shard={"i": list(range(len(LAMBDA)))},
    covers="lambda filters (find, find_index, has, where, reject, map; one and two parameters) compute what the documentation says and their parameters are visible nowhere else: a later read of a same-named outer variable, the loop variable and forloop after the loop, a with-bound name; array literals in assign and for; macros with positional, keyword and default arguments; template strings with interpolated filtered expressions; render() and render_async()",
    bounds="list len <= 3 of ints 0..2, n in 0..3; 10 programs with a direct Python oracle each",
    grid=lambda: [(i, a, n, s) for i in range(len(LAMBDA)) for a in ([], [1], [2, 0, 1], [1, 1]) for n in (0, 1, 3) for s in (False, True)],
)
def k_lambda(i: int, a: List[int], n: int, is_async: bool) -> bool:
    try:
        got = drive(LAMBDA_T[i].render_async(a=a, n=n)) if is_async else LAMBDA_T[i].render(a=a, n=n)
    except LiquidError:
        return False
    return got == LAMBDA[i][1](a, n)


CASE_T = BASE.from_string("{% case x %}{% when 1, y %}A{% when 2 %}{% when y %}{% assign z = 1 %}{% else %}E{% endcase %}|{% case s %}{% when 'a' or 'b' %}S{% when x %}X{% else %}{% endcase %}{{ z }}")
CASE_P = [
    ("case", ("var", "x", []), [([("lit", 1), ("var", "y", [])], [("text", "A")]), ([("lit", 2)], []), ([("var", "y", [])], [("assign", "z", ("lit", 1))])], [("text", "E")]),
    ("text", "|"),
    ("case", ("var", "s", []), [([("lit", "a"), ("lit", "b")], [("text", "S")]), ([("var", "x", [])], [("text", "X")])], []),
    ("out", ("var", "z", [])),
]


@cond(
    pre=["len(s) <= 1", "in_alpha(s, 'ab1')"],
    timeout=120,
    covers="case/when: every matching `when` renders, several values per `when` (comma and `or`), `else` only when nothing matched - also when the matching block is empty or writes nothing",
    bounds="x, y unbounded ints; s str over {a b 1} len <= 1",
    grid=lambda: [(x, y, s) for x in (0, 1, 2, 3) for y in (0, 2, 3) for s in ("", "a", "1")],
)
def k_case(x: int, y: int, s: str) -> bool:
    data = {"x": x, "y": y, "s": s}
    return CASE_T.render(**data) == R.render(CASE_P, dict(data))


# ---- integer literals (shared with C20) ---------------------------------------------------------
LITERALS = ["9007199254740993", "-9007199254740993", "18446744073709551617", "1e3", "12e2", "10000000000000000000000001"]
LIT_T = [BASE.from_string("{{ " + s + " }}|{% if " + s + " == v %}eq{% endif %}|{{ " + s + " | plus: 0 }}") for s in LITERALS]
LIT_V = [9007199254740993, -9007199254740993, 18446744073709551617, 1000, 1200, 10**25 + 1]


@cond(
    pre=["0 <= i < len(LITERALS)", "-1 <= d <= 1"],
    timeout=120,
    covers="integer literals beyond 2^53 and in scientific notation denote exactly the number written (output, comparison with data, arithmetic)",
    bounds="6 boundary literals; comparison value = exact value + d, d in -1..1",
    grid=lambda: [(i, d) for i in range(len(LITERALS)) for d in (-1, 0, 1)],
)
def k_int_literals(i: int, d: int) -> bool:
    i = concrete_int(i, 0, len(LITERALS) - 1)
    v = LIT_V[i]
    out = LIT_T[i].render(v=v + d)
    return out == f"{v}|{'eq' if d == 0 else ''}|{v}"
