"""C04 - auto-escape: untrusted data never reaches the output unescaped."""

from __future__ import annotations

from typing import List

from vf.cond import cond

from .common import drive, STUB_MARKUPSAFE, DictLoader, LiquidError, concrete_int, in_alpha, seed

from liquid2.shopify import Environment as ShopifyEnvironment  # noqa: E402

EXPLANATION = (
    "With auto_escape on, data strings over the characters the escaping code distinguishes are solver variables; "
    "they flow through every filter (alone and in chains), captures, partials, macros, loops, template strings and "
    "translations; the output, minus engine-authored <br />, must contain no raw < > ' \" and only well-formed entities."
)
OUTSIDE = [
    "`safe` (excluded by the property); babel filters; the date filter on symbolic input (dateutil/strftime are C)",
    "translation message interpolation under the solver (Markup % recurses in CrossHair): native grid only",
    "data strings longer than 2 characters (3 for the url_decode chains); characters outside the stated alphabets",
]

ENV = ShopifyEnvironment(
    auto_escape=True,
    loader=DictLoader(
        {
            "p": "[{{ v }}|{{ v | upcase }}|{% capture c %}{{ v }}{% endcapture %}{{ c }}]",
            "base": "{% block b %}({{ x }}){% endblock %}",
            "child": "{% extends 'base' %}{% block b %}[{{ block.super }}{{ x }}]{% endblock %}",
        }
    ),
)
ALPHA_Q = "<&\"a"
ALPHA_Y = "<&a'"
ALPHA_FULL = "<>&'\"a%3C\n"
ENTITIES = ("&lt;", "&gt;", "&amp;", "&#39;", "&#34;", "&quot;", "&LT;", "&GT;", "&AMP;", "&QUOT;", "&Lt;", "&Gt;", "&Amp;")


def safe_out(out: str) -> bool:
    out = out.replace("<br />", "").replace("<BR />", "")
    # markup authored by the tablerow tag itself
    for n in ("1", "2", "3"):
        out = out.replace('<tr class="row' + n + '">', "").replace('<td class="col' + n + '">', "")
    out = out.replace("</td>", "").replace("</tr>", "")
    for c in "<>'\"":
        if c in out:
            return False
    i = out.find("&")
    while i >= 0:
        if not out.startswith(ENTITIES, i):
            return False
        i = out.find("&", i + 1)
    return True


_BABEL = {"currency", "money", "money_with_currency", "money_without_currency", "money_without_trailing_zeros", "datetime", "decimal", "unit"}
ALL_FILTERS_NATIVE = sorted(n for n in ENV.filters if n not in _BABEL and n != "safe")
FILTERS = sorted(n for n in ENV.filters if n not in _BABEL and n not in ("t", "gettext", "ngettext", "pgettext", "npgettext") and n not in ("safe", "date", "base64_encode", "base64_url_safe_encode", "base64_decode", "base64_url_safe_decode"))
CORE = ["join", "newline_to_br", "strip_newlines", "url_encode", "url_decode", "strip_html", "escape", "escape_once", "append", "prepend", "replace", "default",
        "capitalize", "first", "json", "split", "upcase", "truncate", "downcase", "slice"]
# Markup % dict (message interpolation) recurses without end under CrossHair's str model: translation filters and
# the translate tag are exercised natively only (g_translate)
_NATIVE_ONLY = {"t", "gettext", "ngettext", "pgettext", "npgettext"}


def quick_filters() -> list[str]:
    rest = [f for f in FILTERS if f not in CORE]
    k = seed() % max(1, len(rest))
    return CORE + (rest[k:] + rest[:k])[:8]


def _parse(src: str):
    try:
        return ENV.from_string(src)
    except LiquidError:
        return None


_ARGS = ["", ": y", ": y, y", ": 'a'", ": '%Y', 'b'", ": 'a', y"]
SINGLE = {(f, a): _parse("{{ x | " + f + _ARGS[a] + " }}|{{ l | " + f + _ARGS[a] + " }}") for f in FILTERS for a in range(len(_ARGS))}
PAIRS = [(f, g) for f in CORE for g in CORE]
PAIR_T = {
    (f, g): [_parse("{{ x | " + f + " | " + g + " }}"), _parse("{{ x | " + f + ": y | " + g + " }}"), _parse("{{ x | " + f + " | " + g + ": y }}"), _parse("{{ x | " + f + ": y | " + g + ": y }}")]
    for f, g in PAIRS
}


def _ok(t, _is_async: bool = False, **data) -> bool:
    if t is None:
        return True
    try:
        out = drive(t.render_async(**data)) if _is_async else t.render(**data)
    except LiquidError:
        return True
    return safe_out(out)


@cond(
    pre=["len(x) <= 2", "in_alpha(x, ALPHA_Q)"],
    timeout=120,
    timeout_thorough=400,
    shard={"f": quick_filters()},
    shard_thorough={"f": FILTERS},
    covers="{{ x | f }} and {{ [x, 'a'] | f }} for every filter: data never reaches the output unescaped",
    bounds="x over {< & \" a} len <= 2; quick: 20 core + 8 seeded filters, thorough: all non-babel filters",
    stubs=(STUB_MARKUPSAFE,),
    grid=lambda: [(f, x) for f in FILTERS for x in ("<", "&lt;", "a'\"", ">\n<", "%3C", "&amp;")],
)
def d_filter0(f: str, x: str) -> bool:
    return _ok(SINGLE[(f, 0)], x=x, l=[x, "a"], y="")


@cond(
    pre=["len(x) <= N", "in_alpha(x, ALPHA_Q)", "len(y) <= 1", "in_alpha(y, ALPHA_Y)"],
    consts={"N": 1},
    consts_thorough={"N": 2},
    timeout=150,
    timeout_thorough=600,
    shard={"f": quick_filters(), "a": [1, 2, 3, 5]},
    shard_thorough={"f": FILTERS, "a": [1, 2, 3, 4, 5]},
    covers="{{ x | f: y[, y] }} with data-supplied arguments and {{ x | f: 'a'[, y] }} with author literals (Markup under auto-escape) as arguments (join separators, append/prepend/replace/default operands, translation contexts ...)",
    bounds="x over {< & \" a} len <= 1 (thorough 2); y over {< & a '} len <= 1",
    stubs=(STUB_MARKUPSAFE,),
    grid=lambda: [(f, a, x, y, 9) for f in FILTERS for a in (1, 2, 3, 4, 5) for x in ("<", "a\"") for y in ("<", "'", "&")],
)
def d_filter_args(f: str, a: int, x: str, y: str, N: int) -> bool:
    return _ok(SINGLE[(f, a)], x=x, l=[x, y], y=y)


@cond(
    pre=["len(x) <= 1", "in_alpha(x, ALPHA_Q)", "len(y) <= 1", "in_alpha(y, ALPHA_Y)", "0 <= g < len(CORE)"],
    timeout=200,
    timeout_thorough=600,
    shard={"f": CORE[:10]},
    shard_thorough={"f": CORE},
    covers="filter chains {{ x | f | g }}, {{ x | f: y | g }}, {{ x | f | g: y }}, {{ x | f: y | g: y }} for all g in the core set: a Markup result stays safe or is demoted correctly",
    bounds="f from 10 (thorough 20) core filters x all 20 core g (solver choice); x, y 1 character",
    stubs=(STUB_MARKUPSAFE,),
    grid=lambda: [(f, g, x, y) for f in CORE for g in range(len(CORE)) for x in ("<", "&") for y in ("<",)],
)
def d_chain(f: str, g: int, x: str, y: str) -> bool:
    return all(_ok(t, x=x, y=y) for t in PAIR_T[(f, CORE[concrete_int(g, 0, len(CORE) - 1)])])


URL_ALPHA = "%3C<a"
URL_T = [
    _parse("{{ x | url_decode }}|{{ x | escape | url_decode }}|{{ x | url_decode | append: y }}|{{ x | url_encode | url_decode }}"),
    _parse("{{ x | url_decode | strip_newlines }}|{{ x | url_decode | newline_to_br }}|{{ x | url_decode | strip_html }}|{{ x | url_decode | escape_once }}"),
]


@cond(
    pre=["len(x) <= 3", "in_alpha(x, URL_ALPHA)"],
    timeout=300,
    shard={"i": [0, 1]},
    covers="percent-encoded markup: url_decode (alone, after escape, before strip_newlines/newline_to_br/strip_html/escape_once) never yields a raw '<'",
    bounds="x over {% 3 C < a} len <= 3 (contains %3C)",
    stubs=(STUB_MARKUPSAFE,),
    grid=lambda: [(i, x) for i in (0, 1) for x in ("%3C", "<", "%3", "a%3")],
)
def d_url_chain(i: int, x: str) -> bool:
    return _ok(URL_T[i], x=x, y="<")


FLOWS = [
    "{% capture c %}{{ x }}{% endcapture %}{{ c }}|{{ c | append: y }}|{% capture d %}a{{ c }}{% endcapture %}{{ d }}",
    "{% for i in l %}{{ i }}{% endfor %}|{{ l }}|{{ l | join: y }}|{{ l | first }}|{{ h.k }}|{{ h }}|{% for p in h %}{{ p[0] }}{{ p[1] }}{% endfor %}",
    "{% render 'p', v: x %}|{% include 'p', v: y %}|{% include 'p' with x as v %}|{% render 'p' for l as v %}",
    "{% macro m, u, w: y %}<{{ u }}{{ w }}{{ args | first }}>{% endmacro %}".replace("<", "(").replace(">", ")") + "{% call m, x %}{% call m, y, w: x, x %}",
    "{{ \"${x}\" }}|{{ 'a${ y }b${x | upcase}' }}|{% assign z = \"${x}${y}\" %}{{ z }}|{{ z | append: 'a' }}",
    "{{ 'a' | t: x }}|{{ 'm %(u)s' | t: u: x }}|{% translate u: x, v: y %}a{{ u }}{{ v }}{% endtranslate %}|{{ x | t }}|{{ x | gettext: u: y }}",
    "{% assign r = x | split: y %}{{ r }}|{{ r | join: y }}|{{ x | default: y }}|{{ nil | default: x }}|{% echo x %}|{% echo x | prepend: y %}",
    "{{ x if y else 'a' }}|{{ 'a' if nope else x }}|{{ x | upcase if y else y || append: x }}|{% cycle x, y %}|{% case x %}{% when y %}{{ x }}{% else %}{{ y }}{% endcase %}",
    "{% tablerow i in l cols: 1 %}{{ i }}{% endtablerow %}".replace("tablerow", "tablerow"),
    "{% with q: x %}{{ q }}{% endwith %}{% increment n %}{{ x | size }}{{ x | json }}",
    "{{ l | json }}",
    "{{ h | json }}",
]
FLOW_T = [_parse(s) for s in FLOWS]
CHILD = None
try:
    CHILD = ENV.get_template("child")
    for _t in FLOW_T:
        if _t is not None:
            _t.render(x="a", y="a", l=["a"], h={"k": "a"})
except Exception:  # noqa: BLE001
    pass


@cond(
    pre=["len(x) <= N", "in_alpha(x, ALPHA_Q)", "len(y) <= 1", "in_alpha(y, ALPHA_Y)"],
    consts={"N": 1},
    consts_thorough={"N": 2},
    timeout=240,
    timeout_thorough=1200,
    shard={"i": [i for i in range(len(FLOWS)) if i != 5], "is_async": [False, True]},
    covers="data flowing through capture (nested, then appended to), loops and list/hash output, join with a data separator, render/include partials, macro arguments, template strings, translations with data arguments, split/default/echo, ternaries/cycle/case, with, json; render() and render_async()",
    bounds="x over {< & \" a} len <= 1 (thorough 2); y over {< & a '} len <= 1; lists [x, y], hash {k: x, y: y}",
    stubs=(STUB_MARKUPSAFE,),
    grid=lambda: [(i, x, y, 9, a) for i in range(len(FLOWS)) for x in ("<", "a\"", "&<") for y in ("'", "<") for a in (False, True)],
)
def d_flows(i: int, x: str, y: str, N: int, is_async: bool) -> bool:
    out_ok = _ok(FLOW_T[i], is_async, x=x, y=y, l=[x, y], h={"k": x, "y" + y: y})
    if i == 0 and CHILD is not None:
        out_ok = out_ok and _ok(CHILD, is_async, x=x)
    return out_ok


_HOSTILE = ["<", ">", "&", "'", '"', "<script>", "&lt;", "%3C", "a<b", "\n<", "&amp;lt;", "%(u)s<", "<%s"]
_NARGS = ["", ": y", ": y, y", ": u: y", ": y, plural: y, count: 2, u: x", ": '%Y'", ": 'a', 'b'", ": 'a', y", ": '%(u)s', u: x"]
NATIVE_T = {(f, a): _parse("{{ x | " + f + _NARGS[a] + " }}|{% assign z = x | " + f + _NARGS[a] + " %}{{ z }}|{{ z | upcase }}") for f in ALL_FILTERS_NATIVE for a in range(len(_NARGS))}


@cond(
    grid_only=True,
    covers="every non-babel filter incl. t/gettext/ngettext/pgettext/npgettext/date with 13 hostile strings as value and arguments, data and author-literal (Markup) arguments, direct / assigned / re-filtered output, plus the translate-tag flow, natively",
    bounds="concrete grid; not a solver verdict",
    grid=lambda: [(f, a, i, j) for f in ALL_FILTERS_NATIVE for a in range(len(_NARGS)) for i in range(len(_HOSTILE)) for j in (0, 2, 3, 7, 11)],
)
def g_translate(f: str, a: int, i: int, j: int) -> bool:
    x, y = _HOSTILE[i], _HOSTILE[j]
    return _ok(NATIVE_T[(f, a)], x=x, y=y, l=[x, y]) and (f != "t" or _ok(FLOW_T[5], x=x, y=y, l=[x, y], h={}))


@cond(pre=["len(x) <= 1", "in_alpha(x, ALPHA_Q)"], twin=True, timeout=60, covers="reachability twin: hostile characters do reach the output path (and are escaped there)")
def twin_flows(x: str) -> bool:
    return "&" not in FLOW_T[0].render(x=x, y="")
