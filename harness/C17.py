"""C17 - tokens tile the source; every reported position lies inside it."""

from __future__ import annotations

import json
import os

from vf.cond import HarnessAbort, cond

from .common import REPO, Environment, LiquidError, concrete_int, in_alpha

from liquid2.exceptions import LiquidSyntaxError  # noqa: E402
from liquid2.lexer import Lexer  # noqa: E402
from liquid2.token import TokenType  # noqa: E402

from .C02 import SCAN_ALPHA, _render_error, _scan  # noqa: E402

EXPLANATION = (
    "Inductive step of the markup scanner with the compiled pattern replaced by a nondeterministic stub "
    "(any alternative, any match length, any marker): from a state satisfying the tiling invariant one step "
    "re-establishes it, for sources of any length; string scanners run on symbolic text."
)
OUTSIDE = [
    "the regular expressions themselves (CrossHair's regex model is unsound for this lexer): the stub's contract - a match at pos "
    "starts at pos, is non-empty and ends inside the source, and no match only at end of input - is validated natively on the repository's 995 CTS templates",
    "the inside-tag / inside-output state functions on symbolic text (their token spans are checked on the concrete corpus only)",
]

ENV = Environment()
SRC = "ab{{c}}d{%e%}f"
N = len(SRC)
KINDS = ["CONTENT", "OUTPUT", "TAG", "COMMENT", "RAW", "INLINE_COMMENT", "COMMENT_TAG"]
WCS = [None, "", "-", "+", "~"]


class _Stop(Exception):
    pass


class _FakeMatch:
    def __init__(self, source: str, pos: int, ln: int, kind: str, groups: dict):
        self._s = source
        self._pos = pos
        self._ln = ln
        self.lastgroup = kind
        self._g = groups

    def group(self, name=0):  # type: ignore[no-untyped-def]
        if name == 0:
            return self._s[self._pos : self._pos + self._ln]
        return self._g.get(name)

    def start(self) -> int:
        return self._pos

    def end(self) -> int:
        return self._pos + self._ln


class _FakeRules:
    """Stand-in for Lexer.MARKUP_RULES: one scripted match, then stop the experiment."""

    def __init__(self, kind: str, ln: int, groups: dict):
        self.kind, self.ln, self.groups = kind, ln, groups
        self.calls = 0

    def match(self, source: str, pos: int = 0):  # type: ignore[no-untyped-def]
        self.calls += 1
        if self.calls > 1:
            raise _Stop
        if pos >= len(source):
            return None  # contract: no alternative matches only at end of input
        return _FakeMatch(source, pos, self.ln, self.kind, self.groups)


def _err_span_ok(tok, n: int) -> bool:
    """An error's token: no token, no position (start < 0), or start and stop both inside a source of length n."""
    if tok is None or tok.start < 0:
        return True
    return 0 <= tok.start < max(n, 1) and tok.start <= tok.stop <= max(n, 1)


def _tiles(tokens, upto: int) -> bool:
    at = 0
    for t in tokens:
        if t.start != at or t.stop <= t.start:
            return False
        at = t.stop
    return at == upto


@cond(
    pre=["0 <= kind < 7", "0 <= p < N", "1 <= ln <= N - p", "0 <= w0 < 5"],
    timeout=300,
    shard={"kind": list(range(7))},
    covers="one step of lex_markup from any state satisfying the invariant (start == pos == end of the tokens so far): the token emitted is exactly [pos, pos+len), start is advanced, markup_start is set on transfer to an inside state",
    bounds="7 match kinds x every position / match length in a 14-character source x 5 marker assignments; tag name in {if, liquid}",
    stubs=("Lexer.MARKUP_RULES := scripted nondeterministic match (kind, length, groups)",),
    grid=lambda: [(k, p, ln, 2, b) for k in range(7) for (p, ln) in ((0, 1), (0, N), (5, 3), (N - 1, 1)) for b in (False, True)],
)
def i_markup(kind: int, p: int, ln: int, w0: int, liquid_tag: bool) -> bool:
    kind = concrete_int(kind, 0, 6)
    p = concrete_int(p, 0, N - 1)
    ln = concrete_int(ln, 1, N)
    name = KINDS[kind]
    w0 = concrete_int(w0, 0, 4)
    a, b = WCS[w0], WCS[(w0 + 2) % 5]
    groups = {
        "OUT_WC": a, "TAG_WC": a, "TAG_NAME": "liquid" if liquid_tag else "if", "CT_WC": a,
        "COMMENT_WC0": a, "COMMENT_WC1": b, "COMMENT_TEXT": "c", "HASHES": "#",
        "RAW_WC0": a, "RAW_WC1": b, "RAW_WC2": a, "RAW_WC3": b, "RAW_TEXT": "r",
        "ILC_WC0": a, "ILC_WC1": b, "ILC_TEXT": "i",
    }
    rules = _FakeRules(name, ln, groups)

    class L(Lexer):
        MARKUP_RULES = rules

    lx = L(ENV, SRC)
    # pre-state: the invariant holds at p
    if p > 0:
        from liquid2.token import ContentToken

        lx.markup.append(ContentToken(type_=TokenType.CONTENT, start=0, stop=p, text=SRC[:p], source=SRC))
    lx.pos = p
    lx.start = p
    before = len(lx.markup)
    try:
        nxt = lx.lex_markup()
    except _Stop:
        nxt = "again"
    except LiquidError:
        return False
    except Exception:  # noqa: BLE001
        return False
    end = p + ln
    if lx.pos != end or lx.start != end:
        return False
    if name in ("CONTENT", "COMMENT", "RAW", "INLINE_COMMENT"):
        if nxt != "again" or len(lx.markup) != before + 1:
            return False
        t = lx.markup[-1]
        if not (t.start == p and t.stop == end):
            return False
        return _tiles(lx.markup, end)
    # OUTPUT / TAG / COMMENT_TAG: control moves to an inside state
    if nxt == "again" or nxt is None or len(lx.markup) != before:
        return False
    return lx.markup_start == p and len(lx.wc) == 1


@cond(
    pre=["0 <= p < N", "1 <= ln <= N - p"],
    twin=True,
    timeout=60,
    covers="reachability twin for i_markup",
)
def twin_markup(p: int, ln: int) -> bool:
    return not i_markup(0, p, ln, 0, False)


@cond(
    pre=["len(src) <= 3", "in_alpha(src, SCAN_ALPHA)"],
    timeout=240,
    shard={"dq": [False, True]},
    covers="string tokens produced by accept_template_string: value == source[start:stop], span inside the source, lexer start advanced past the closing quote",
    bounds="text after the opening quote over {' \" \\ u n a 0 $} len <= 3",
    grid=lambda: [(s, d) for s in ("", "a'", 'a"', "\\'a'", "\\\"\"", "aa'") for d in (False, True)],
)
def k_string_token(src: str, dq: bool) -> bool:
    quote = '"' if dq else "'"
    full = quote + src
    lx = Lexer(ENV, full)
    lx.pos = 1
    lx.start = 1
    lx.markup_start = 0
    out: list = []
    try:
        lx.accept_template_string(quote=quote, expression=out)
    except LiquidSyntaxError as e:
        return e.token is not None and e.token.start >= 0 and _err_span_ok(e.token, len(full))
    except Exception:  # noqa: BLE001
        return False
    if len(out) != 1:
        return False
    t = out[0]
    if not (1 <= t.start <= t.stop <= len(full)):
        return False
    if hasattr(t, "value") and full[t.start : t.stop] != t.value:
        return False
    return lx.start == lx.pos and full[lx.pos - 1] == quote and t.stop <= lx.pos - 1


# ---- stub validation + tiling on the repository's own corpus (native grid) ---------------
def _corpus() -> list[str]:
    p = os.path.join(REPO, "tests", "liquid2-compliance-test-suite", "cts.json")
    out: list[str] = []
    try:
        with open(p) as fh:
            data = json.load(fh)
        for t in data.get("tests", []):
            if isinstance(t.get("template"), str):
                out.append(t["template"])
    except Exception:  # noqa: BLE001
        pass
    extra = [
        "a{# c #}b{{ x }}", "{% # c %}{{ x }}", "{# a #}{# b #}{% if x %}y{% endif %}", "{% comment %}x{% endcomment %}{{ y }}",
        "{% raw %}{{ x }}{% endraw %}{{ y }}", "{% liquid\n  # c\n  echo x\n%}{{ y }}", "a{##- c -##}{{- x -}}",
        "é{# c #}ü{{ 'ö' }}", "{%- # c -%}\n{%- assign a = 1 -%}{{ a }}",
        "{{ \"${(1..3)}\" }}{{ (1..2) }}{{ \"a${ (x..y) | join: '-' }b\" }}{% for i in (a.b..c[0]) %}{{ i }}{% endfor %}",
        "{{ a[b.c].d['e f'] }}{{ 'x${ p[q] }y${ 'n${z}' }' }}{% liquid\n  echo (1..x)\n  assign v = \"${ a.b }\"\n%}",
        # sources that fail to tokenize: the error's whole span (start and stop) must lie inside the source
        "{% comment %}aaaa{% comment %}bbbb", "{% comment %}a{% comment %}b{% endcomment %}", "ab{% raw %}cd", "{{ a | f: 'x }}", "x{% if a == %}y",
        "{% liquid\n  comment\n  a\n%}", "{{ \"a${ b \" }}",
        # block comments written as line statements: first statement of a liquid tag, after another statement, in a second liquid tag
        "{% liquid\ncomment\na\nendcomment\necho x\n%}{{ y }}", "a{% liquid\necho a\ncomment\nb\nendcomment\n%}{% liquid\ncomment\nc\nendcomment\necho d\n%}",
    ]
    return out + extra


CORPUS = _corpus()


def _spans_ok(src: str) -> bool:
    try:
        toks = ENV.tokenize(src)
    except LiquidSyntaxError as e:
        tok = e.token
        return _err_span_ok(tok, len(src))
    if not src:
        return toks == []
    if not _tiles(toks, len(src)):
        return False
    for t in toks:
        exp = getattr(t, "expression", None)
        if exp:
            at = t.start
            for e in exp:
                if not (at <= e.start <= e.stop <= t.stop):
                    return False
                if not _nested_ok(e, t.start, t.stop):
                    return False
                at = e.stop
        for st in getattr(t, "statements", None) or []:
            if not (t.start <= st.start <= st.stop <= t.stop):
                return False
            at = st.start
            for e in getattr(st, "expression", None) or []:
                if not (at <= e.start <= e.stop <= st.stop and _nested_ok(e, st.start, st.stop)):
                    return False
                at = e.stop
    return True


def _nested_ok(tok, lo: int, hi: int) -> bool:
    """Tokens nested in ranges, paths and template strings also lie inside their parent, in order."""
    kids = []
    if hasattr(tok, "range_start"):
        kids = [tok.range_start, tok.range_stop]
    elif hasattr(tok, "template"):
        kids = list(tok.template)
    elif hasattr(tok, "path"):
        kids = [seg for seg in tok.path if hasattr(seg, "start")]
    at = tok.start
    for k in kids:
        if not (lo <= tok.start <= k.start <= k.stop <= tok.stop <= hi and at <= k.start):
            return False
        sub = getattr(k, "expression", None)
        if sub:
            a2 = k.start
            for e in sub:
                if not (a2 <= e.start <= e.stop <= k.stop and _nested_ok(e, k.start, k.stop)):
                    return False
                a2 = e.stop
        elif not _nested_ok(k, lo, hi):
            return False
        at = k.stop
    return True


LAYOUTS = CORPUS[-20:]


@cond(
    pre=["0 <= i < 20"],
    timeout=120,
    covers="tokens after {# #}, {% # %}, block comments, raw and liquid tags start where the previous token stopped (real lexer, concrete layouts)",
    bounds="20 layouts: comments of every kind before every construct, ranges and paths nested in template strings, liquid tags (incl. block comments as line statements), 7 sources that fail to tokenize (error span inside the source) (i enumerated by the solver)",
    grid=lambda: [(i,) for i in range(20)],
)
def d_comment_layouts(i: int) -> bool:
    return _spans_ok(LAYOUTS[concrete_int(i, 0, 19)])


@cond(
    grid_only=True,
    covers="stub validation / corpus check of the real lexer: tokens tile each CTS template, expression tokens nest in order",
    bounds="995 CTS templates + 9 layouts, evaluated natively (not a solver verdict)",
    grid=lambda: [(i,) for i in range(len(CORPUS))],
)
def d_corpus_native(i: int) -> bool:
    return _spans_ok(CORPUS[i])


class _Shorthand(Environment):
    shorthand_indexes = True


ENV_SH = _Shorthand()
SH_SRC = ["{{ a.1 }}{{ a.0.b }}", "{{ a.1.c[0] }}|{% if a.2 == b.0 %}x{% endif %}", "{% for i in a.1 %}{{ i.0 }}{% endfor %}"]


@cond(
    pre=["0 <= i < 3"],
    timeout=60,
    covers="with shorthand_indexes enabled, paths ending in or containing a shorthand index have spans inside their markup token",
    bounds="3 concrete sources",
    grid=lambda: [(i,) for i in range(3)],
)
def d_shorthand_spans(i: int) -> bool:
    src = SH_SRC[concrete_int(i, 0, 2)]
    toks = ENV_SH.tokenize(src)
    if not _tiles(toks, len(src)):
        return False
    for t in toks:
        at = t.start
        for e in getattr(t, "expression", None) or []:
            if not (at <= e.start <= e.stop <= t.stop):
                return False
            at = e.stop
    return True


from .C02 import k_errctx as _k_errctx  # noqa: E402


@cond(
    pre=["len(text) <= 3", "in_alpha(text, 'a\\n\\r')", "0 <= index <= len(text)"],
    timeout=200,
    shard={"kind": [0, 1, 2, 3, 4]},
    covers="line and column information refers to the construct it describes: for every source over {a, LF, CR} and every position, context() reports the line (LF, CR and CRLF each one break), the column within it and that line's text",
    bounds="source len <= 3 over {a LF CR}; every position 0..len; 5 token kinds",
    grid=lambda: [(t, i, k) for t in ("a\r\na", "\r\n\r\n", "a\n\ra", "aaa", "\ra") for i in range(len(t) + 1) for k in range(5)],
)
def k_linecol(text: str, index: int, kind: int) -> bool:
    return _k_errctx(text, index, 1, kind, False)


# ---- inside-output / inside-tag state functions on SYMBOLIC text ----------------------------------
from . import pymatch  # noqa: E402
from liquid2.token import WhitespaceControl as _WC  # noqa: E402

PyLexer = pymatch.install(Lexer)
EXPR_ALPHA = "a1.'\"[]|:}-( "
_VALIDATION = pymatch.validate(Lexer, EXPR_ALPHA + "%e+,=<>!~\n", 3)


def _lex_inside(src: str, kind: int):
    prefix = "{{" if kind == 0 else "{%if"
    full = prefix + src
    lx = PyLexer(ENV, full)
    lx.markup_start = 0
    lx.pos = lx.start = len(prefix)
    lx.wc = [_WC.DEFAULT]
    lx.tag_name = "if"
    state = lx.lex_inside_output_statement if kind == 0 else lx.lex_inside_tag
    try:
        nxt = state()
    except LiquidSyntaxError as e:
        return ("liquid", e, full)
    except Exception as e:  # noqa: BLE001
        return ("escape", type(e).__name__, full)
    return ("ok", (lx, nxt), full)


@cond(
    pre=["1 <= len(src) <= N", "in_alpha(src[1:], EXPR_ALPHA)"],
    consts={"N": 3},
    consts_thorough={"N": 4},
    timeout=400,
    timeout_thorough=3000,
    shard={"c0": list(EXPR_ALPHA), "kind": [0, 1]},
    covers="the real lex_inside_output_statement / lex_inside_tag (with accept_token, accept_path, accept_range, accept_template_string) on symbolic source text: they return with a markup token that spans exactly [markup_start, pos) whose expression tokens are ordered, non-overlapping and nested (also inside paths, ranges and strings), or raise LiquidSyntaxError with a renderable position inside the source - no other exception, for every text",
    bounds="text after `{{` / `{%if` = c0 + up to 2 (thorough 3) characters over {a 1 . ' \" [ ] | : } - ( space}; the 7 simple patterns are replaced by pure-Python stand-ins validated exhaustively against the compiled patterns (all strings len <= 3 over the alphabet + 10 more characters, every position)",
    stubs=("Lexer.RE_WHITESPACE/RE_LINE_SPACE/RE_OUTPUT_END/RE_TAG_END/RE_PROPERTY/RE_INDEX/TOKEN_RULES := pure-Python stand-ins (harness/pymatch.py), validated natively against the real patterns at import",),
    grid=lambda: [(c, k, c + rest, 9) for c in EXPR_ALPHA for k in (0, 1) for rest in ("", "}}", " }", "a}}", ".a", "[1", "'a", "1.", "(1", "|a", "-}}", "..", "]}")],
)
def i_expr_symbolic(c0: str, kind: int, src: str, N: int) -> bool:
    if _VALIDATION is not None:
        raise HarnessAbort(f"lexer pattern stand-in differs from the compiled pattern: {_VALIDATION}")
    if src[:1] != c0:
        return True
    res = _lex_inside(src, kind)
    full = res[2]
    if res[0] == "escape":
        return False
    if res[0] == "liquid":
        e = res[1]
        tok = e.token
        if tok is None:
            return True
        if not _render_error(e):
            return False
        return _err_span_ok(tok, len(full))
    lx, nxt = res[1]
    if nxt != lx.lex_markup or not lx.markup:
        return False
    t = lx.markup[-1]
    if not (t.start == 0 and t.stop == lx.pos == lx.start and t.stop <= len(full)):
        return False
    at = t.start
    for e in t.expression:
        if not (at <= e.start <= e.stop <= t.stop and _nested_ok(e, t.start, t.stop)):
            return False
        at = e.stop
    return True


# ---- whole-source tiling on symbolic text ------------------------------------------------------------
from .C02 import PREFIXES, PY_ENV, SRC_ALPHA, SRC_ALPHA_T, _STANDIN_VALIDATION  # noqa: E402


def _spans_ok_env(env, src: str) -> bool:
    try:
        toks = env.tokenize(src)
    except LiquidSyntaxError as e:
        tok = e.token
        return _err_span_ok(tok, len(src))
    if not src:
        return toks == []
    if not _tiles(toks, len(src)):
        return False
    for t in toks:
        if src[t.start : t.stop] == "" or (hasattr(t, "text") and type(t).__name__ == "ContentToken" and t.text != src[t.start : t.stop]):
            return False
        at = t.start
        for e in getattr(t, "expression", None) or []:
            if not (at <= e.start <= e.stop <= t.stop and _nested_ok(e, t.start, t.stop)):
                return False
            at = e.stop
        for st in getattr(t, "statements", None) or []:
            if not (t.start <= st.start <= st.stop <= t.stop):
                return False
    return True


@cond(
    pre=["len(suffix) <= N", "in_alpha(suffix, ALPHA)"],
    consts={"N": 2, "ALPHA": SRC_ALPHA},
    consts_thorough={"N": 3, "ALPHA": SRC_ALPHA_T},
    timeout=300,
    timeout_thorough=2400,
    shard={"p": list(range(len(PREFIXES)))},
    covers="for every source text in the bound that tokenizes: the top-level tokens are contiguous, non-overlapping, start at 0 and end at the last character, content tokens carry exactly their text, expression and line-statement tokens nest in order inside their markup token; for every source that does not tokenize the error position lies inside the source",
    bounds="23 state-reaching prefixes + suffix over 14 characters len <= 2 (thorough: 10 characters, len <= 3); lexer patterns replaced by validated pure-Python stand-ins",
    stubs=("all 13 compiled lexer patterns := pure-Python stand-ins (harness/pymatch.py), validated against the real patterns at import",),
    grid=lambda: [(p, s, 9, SRC_ALPHA) for p in range(len(PREFIXES)) for s in ("", "}}", "%}", " }}", "'", "|a}}", "a}", "#}", "\n%}", "1}}", "[a", "..", "{{", "{%", "%}a")],
)
def d_tiling_symbolic(p: int, suffix: str, N: int, ALPHA: str) -> bool:
    if _STANDIN_VALIDATION is not None:
        raise HarnessAbort(f"lexer pattern stand-in differs from the compiled pattern: {_STANDIN_VALIDATION}")
    return _spans_ok_env(PY_ENV, PREFIXES[p] + suffix)


def _tok_view(env, src: str):
    try:
        return ("ok", repr(env.tokenize(src)))
    except LiquidSyntaxError as e:
        return ("err", str(e.args[0]) if e.args else "", None if e.token is None else e.token.start)


_REAL_ENV = type(PY_ENV).__mro__[1](loader=PY_ENV.loader)  # the same environment class with the real (regex) lexer


@cond(
    grid_only=True,
    covers="translation validation of the stand-in lexer: on every source of the symbolic conditions' bound (23 prefixes x all suffixes of length <= 2) it produces exactly the tokens (or the error message and position) of the real regex-based lexer",
    bounds="23 x 211 concrete sources, natively",
    grid=lambda: [(p, a + b) for p in range(len(PREFIXES)) for a in [""] + list(SRC_ALPHA) for b in [""] + list(SRC_ALPHA) if not (a == "" and b != "")],
)
def g_pylexer_equiv(p: int, suffix: str) -> bool:
    src = PREFIXES[p] + suffix
    if _tok_view(PY_ENV, src) != _tok_view(_REAL_ENV, src):
        # the stand-in lexer is an assumption of the harness, not part of the property
        raise HarnessAbort(f"stand-in lexer and real lexer disagree on {src!r}")
    return True
