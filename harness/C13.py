"""C13 - file-system and package loaders never read outside their roots."""

from __future__ import annotations

import pathlib

from vf.cond import cond

from .common import STUB_INTERN, Environment, LiquidError, concrete_int, drive, in_alpha, outcome, untraced

from liquid2 import CachingFileSystemLoader, ChoiceLoader, FileSystemLoader, PackageLoader  # noqa: E402
from liquid2.exceptions import TemplateNotFoundError  # noqa: E402

EXPLANATION = (
    "The file system is a nondeterministic stub that answers 'exists' for every path (worst case), so the "
    "loader has to confine lexically; the template name is a solver variable over a path alphabet."
)
OUTSIDE = [
    "symlinks, case-insensitive or Windows path semantics (posix only)",
    "names longer than the stated bound; alphabets other than { / . a ~ e-acute backslash }",
    "the thread-pool hop of get_source_async (run_in_executor runs its callable inline under a stub loop)",
]

ALPHA = "/.a~é\\"
ROOT1 = "/srv/t"
ROOT2 = "/srv/u"


def inside(root: str, p: str) -> bool:
    """Lexical containment: does `p`, normalised, lie inside directory `root`?"""
    if not p.startswith("/"):
        return False  # loaders are configured with absolute roots here
    parts: list[str] = []
    for seg in p.split("/"):
        if seg == "" or seg == ".":
            continue
        if seg == "..":
            if parts:
                parts.pop()
            continue
        parts.append(seg)
    want = [s for s in root.split("/") if s]
    return len(parts) >= len(want) and parts[: len(want)] == want


class _AllExist:
    """File-system stub: every path exists and is a file (worst case for confinement)."""

    def __enter__(self):
        self.exists = pathlib.Path.exists
        self.is_file = pathlib.Path.is_file
        self.read_text = pathlib.Path.read_text
        self.reads: list[str] = []
        reads = self.reads
        pathlib.Path.exists = lambda self, **k: True  # type: ignore[method-assign]
        pathlib.Path.is_file = lambda self, **k: True  # type: ignore[method-assign]

        original = self.read_text

        def read_text(path, *a, **k):  # type: ignore[no-untyped-def]
            if str(path).endswith(".py"):  # the analysis engine reading its own sources, not a template read
                return original(path, *a, **k)
            reads.append(str(path))
            return "T"

        pathlib.Path.read_text = read_text  # type: ignore[method-assign]
        return self

    def __exit__(self, *a):
        pathlib.Path.exists = self.exists  # type: ignore[method-assign]
        pathlib.Path.is_file = self.is_file  # type: ignore[method-assign]
        pathlib.Path.read_text = self.read_text  # type: ignore[method-assign]
        return False


def _resolve_ok(loader, roots: list[str], name: str) -> bool:
    with _AllExist():
        try:
            p = loader.resolve_path(name)
        except TemplateNotFoundError:
            return True
        except LiquidError:
            return False
        except Exception:  # noqa: BLE001
            return False
    s = str(p)
    return any(inside(r, s) for r in roots)


_GRID = [("..\\a",), ("\\a",), ("a",), ("/a",), ("/.",), ("../a",), ("a/../../b",), ("..",), ("",), (".",), ("/",), ("a/b.c",), ("~",), ("é/a",), ("a/..a",), ("//a",), ("./a",)]


@cond(
    pre=["len(name) <= N", "in_alpha(name, ALPHA)"],
    consts={"N": 4},
    consts_thorough={"N": 5},
    timeout=240,
    timeout_thorough=1500,
    shard={"ext": [False, True], "two": [False, True]},
    covers="FileSystemLoader.resolve_path returns only paths lexically inside a search path, else TemplateNotFoundError",
    bounds="name over {/ . a ~ e-acute backslash}, len <= 4 (thorough 5); ext in {None,.liquid}; 1 or 2 search paths; fs stub: everything exists",
    stubs=("Path.exists/is_file := True for every path", STUB_INTERN),
    grid=lambda: [(n, e, t, 9) for (n,) in _GRID for e in (False, True) for t in (False, True)],
)
def k_fs_resolve(name: str, ext: bool, two: bool, N: int) -> bool:
    roots = [ROOT1, ROOT2] if two else [ROOT1]
    loader = FileSystemLoader(roots if two else ROOT1, ext=".liquid" if ext else None)
    return _resolve_ok(loader, roots, name)


SIB_ALPHA = "t~.a"


@cond(
    pre=["len(suffix) <= 2", "in_alpha(suffix, SIB_ALPHA)", "0 <= ups <= 2"],
    timeout=200,
    shard={"ext": [False, True]},
    covers="names that climb out of the search directory and re-enter a *sibling* whose name starts with the search directory's name (../t~/a, ../ta.liquid, ../../srv/tt): rejected - containment is by path component, never by character prefix",
    bounds="name = '../' x ups + (root base name 't' or 'srv/t') + suffix over {t ~ . a} len <= 2 + optional '/a'; fs stub: everything exists",
    stubs=("Path.exists/is_file := True for every path", STUB_INTERN),
    grid=lambda: [(s, u, t, e) for s in ("", "t", "~", "a", ".a", "t/") for u in (0, 1, 2) for t in (False, True) for e in (False, True)],
)
def k_fs_sibling(suffix: str, ups: int, tail: bool, ext: bool) -> bool:
    ups = concrete_int(ups, 0, 2)
    base = ["t", "t", "srv/t"][ups]
    name = "../" * ups + base + suffix + ("/a" if tail else "")
    loader = FileSystemLoader(ROOT1, ext=".liquid" if ext else None)
    return _resolve_ok(loader, [ROOT1], name)


@cond(
    pre=["len(name) <= 3", "in_alpha(name, ALPHA)"],
    twin=True,
    timeout=60,
    covers="reachability twin: some names are served (not everything is rejected)",
)
def twin_fs_resolve(name: str) -> bool:
    loader = FileSystemLoader(ROOT1)
    with _AllExist():
        try:
            loader.resolve_path(name)
        except TemplateNotFoundError:
            return True
    return False


@cond(
    pre=["len(name) <= N", "in_alpha(name, ALPHA)"],
    consts={"N": 4},
    consts_thorough={"N": 5},
    timeout=240,
    timeout_thorough=1500,
    covers="PackageLoader._resolve_path returns only paths inside package/package_path",
    bounds="name over {/ . a ~ e-acute backslash}, len <= 4 (thorough 5); package liquid2, package_path builtin; is_file := True",
    stubs=("Path.exists/is_file := True for every path", STUB_INTERN),
    grid=lambda: [(n, 9) for (n,) in _GRID],
)
def k_pkg_resolve(name: str, N: int) -> bool:
    loader = PackageLoader("liquid2", package_path="builtin")
    root = str(loader.paths[0])
    with _AllExist():
        try:
            p = loader._resolve_path(name)
        except TemplateNotFoundError:
            return True
        except Exception:  # noqa: BLE001
            return False
    return inside(root, str(p))


class _RecordingFS(FileSystemLoader):
    def _read(self, source_path):  # type: ignore[no-untyped-def]
        self.seen.append(str(source_path))
        return "T", 0.0


class _RecordingCFS(CachingFileSystemLoader):
    def _read(self, source_path):  # type: ignore[no-untyped-def]
        self.seen.append(str(source_path))
        return "T", 0.0


HOSTILE = ["a", "/etc/passwd", "../x", "a/../../x", "/", ".", "", "./a", "//a", "a/./b", "..", "/srv/t/../x", "..\\x", "\\etc\\passwd", "a\\..\\..\\x", "\\"]


VIA_SRC = [None, "{% include n %}", "{% render 'X' %}", "{% extends 'X' %}"]


def _tag_ok(kind: int, via: int, name: str, ext: bool, is_async: bool = False) -> bool:
    def build():  # type: ignore[no-untyped-def]  # object graph and parsing: nothing symbolic
        if kind >= 4:  # PackageLoader (reads through Path.read_text), alone or behind a ChoiceLoader
            inner = PackageLoader("liquid2", package_path="builtin", ext=".liquid" if ext else ".txt")
            root = str(inner.paths[0])
            loader = ChoiceLoader([inner]) if kind == 5 else inner
        else:
            cls = (_RecordingFS, _RecordingCFS)[kind % 2]
            inner = cls(ROOT1, ext=".liquid" if ext else None)
            inner.seen = []
            root = ROOT1
            loader = ChoiceLoader([inner]) if kind >= 2 else inner
        env = Environment(loader=loader)
        return inner, root, env, (env.from_string(VIA_SRC[via]) if via else None)

    inner, root, env, t = untraced(build)
    if via >= 2:
        # render / extends take the name as a string literal written by the template author: the parsed
        # literal's value is replaced by the solver's string (state constructed directly, the lexer is not the subject)
        t.nodes[0].name.value = name
    with _AllExist() as fs:
        seen = fs.reads if kind >= 4 else inner.seen
        try:
            if via == 0:
                t = drive(env.get_template_async(name)) if is_async else env.get_template(name)
            if is_async:
                drive(t.render_async(n=name))
            else:
                t.render(n=name)
        except TemplateNotFoundError:
            return not seen
        except LiquidError:
            return all(inside(root, s) for s in seen)
        except Exception:  # noqa: BLE001
            return False
    return all(inside(root, s) for s in seen)


@cond(
    pre=["len(name) <= 3", "in_alpha(name, ALPHA)", "0 <= via <= 3", "0 <= kind <= 5"],
    timeout=400,
    timeout_thorough=1200,
    shard={"via": [0, 1, 2, 3], "ext": [False, True], "is_async": [False, True]},
    covers="get_template / get_template_async / {% include %} with a data-supplied name and {% render %} / {% extends %} with any literal name (render and render_async) only ever read files inside the search path or package directory (FileSystemLoader, CachingFileSystemLoader, PackageLoader, ChoiceLoader over each), through get_source and get_source_async",
    bounds="name over {/ . a ~ e-acute backslash} len <= 3; 6 loader kinds; sync and async; fs stub: everything exists, reads are recorded",
    stubs=("Path.exists/is_file := True for every path", "FileSystemLoader._read / Path.read_text record the path and return a fixed source", "asyncio.get_running_loop := inline stub loop (see common.STUB_LOOP)"),
    grid=lambda: [(k, v, n, e, a) for k in range(6) for v in range(4) for n in HOSTILE for e in (False, True) for a in (False, True)],
)
def d_tags(kind: int, via: int, name: str, ext: bool, is_async: bool) -> bool:
    return _tag_ok(concrete_int(kind, 0, 5), via, name, ext, is_async)
