"""C16 - strict undefined raises only for missing variables and refines the default."""

from __future__ import annotations

from vf.cond import cond

from .common import drive, STUB_STRICT_INIT, DictLoader, Environment, LiquidError, VFalsyStrict, VStrict, concrete_int

from liquid2.exceptions import UndefinedError  # noqa: E402
from liquid2.undefined import Undefined  # noqa: E402

EXPLANATION = (
    "Every referenced variable/property has a solver-chosen presence bit and value. The same program is rendered under "
    "a logging Undefined, StrictUndefined and FalsyStrictUndefined; strict success must equal the default output, a strict "
    "UndefinedError must coincide with at least one undefined created in the default run, the default run never raises UndefinedError."
)
OUTSIDE = ["programs other than the 12 listed; values other than ints 0..2 / 1-element structures"]

CREATED = [0]


class LogUndefined(Undefined):
    __slots__ = ()

    def __init__(self, *a, **k):  # type: ignore[no-untyped-def]
        super().__init__(*a, **k)
        CREATED[0] += 1


PARTS = {"p": "({{ v }}{{ a }})"}
ENVS = [Environment(undefined=u, loader=DictLoader(dict(PARTS))) for u in (LogUndefined, VStrict, VFalsyStrict)]

PROGRAMS = [
    "{{ a }}{{ o.k }}{{ a | default: 'd' }}{{ o.k | default: b }}",
    "{% if a %}A{% endif %}{% if o.k == 1 %}K{% endif %}{% unless b %}U{% endunless %}{% if a and b %}AB{% elsif o.k %}OK{% endif %}",
    "{% for i in l %}{{ i }}{% else %}E{% endfor %}{{ l | size }}{{ l | first }}{{ l.first }}{{ l[0] }}",
    "{{ a | plus: b }}|{{ 1 | plus: a }}|{{ a | append: b }}|{{ a | times: 2 }}",
    "{{ l | map: 'k' | join: ',' }}|{{ l | where: 'k', a | size }}|{{ l | find: i => i == a }}|{{ l | sort | first }}",
    "{% render 'p', v: a %}{% include 'p' %}{% include 'p', v: b %}",
    "{{ a | default: b }}{{ o[a] }}{{ o[b].c }}{{ o['k'] }}{{ o.k.z }}",
    "{% assign x = a %}{{ x }}{% capture c %}{{ b }}{% endcapture %}{{ c }}{% assign y = o.k | default: 7 %}{{ y }}",
    "{% case a %}{% when b %}W{% when 1 %}1{% else %}E{% endcase %}{{ a if b else 'z' }}{{ 'q' if o.k }}",
    "{{ 'abc' | slice: a }}|{{ 'abcdef' | truncate: b }}|{{ l | join: a }}|{{ a | at_least: b }}",
    "{% for i in (1..a) %}{{ i }}{% endfor %}{% for i in l limit: b %}{{ i }}{% endfor %}{% cycle a, b %}{% echo o.k %}",
    "{% assign z = nil %}{{ z }}{% if z %}Z{% endif %}{% for i in l %}[{{ i }}{% if i %}T{% endif %}]{% endfor %}{{ a }}{{ b | default: 'd' }}{% assign y = a %}{{ y }}",
    "{% if a == nil %}N{% endif %}{% if a == b %}EQ{% endif %}{% if l contains a %}C{% endif %}{% if a < 1 or b %}LT{% endif %}",
    "{% if o contains a %}H{% endif %}{% if l contains b %}L{% endif %}{{ l | uniq | size }}{{ l | compact | size }}{% case b %}{% when false %}F{% when nil %}N{% when a %}A{% endcase %}{% if a != false %}NF{% endif %}{% if b == false %}BF{% endif %}{% if false == a %}FA{% endif %}",
    "{{ h | where: 'k', a | size }}{{ h | has: 'k', b }}{{ h | find_index: 'k', a }}{{ h | reject: 'k', b | size }}{{ h | map: 'k' | uniq | size }}{% if a in l %}IN{% endif %}{{ l | has: a }}",
]
TEMPLATES = [[e.from_string(s) for s in PROGRAMS] for e in ENVS]
for _row in TEMPLATES:
    for _t in _row:
        try:
            _t.render(a=1, b=1, l=[1], o={"k": 1})  # load partials now
        except Exception:  # noqa: BLE001
            pass


def _data(pa: bool, pb: bool, pl: bool, po: bool, pk: bool, va: int, vb: int) -> dict:
    d: dict = {}
    a = [0, 1, 2, None, False][va]  # a name bound to nil (or false) exists: it is not "missing"
    b = [0, 1, 2, None, False][vb]
    if pa:
        d["a"] = a
    if pb:
        d["b"] = b
    if pl:
        d["l"] = [b, a]
        d["h"] = [{"k": b}, {"k": a}, {}]
    if po:
        d["o"] = {"k": a} if pk else {}
    return d


def _run(policy: int, i: int, data: dict, is_async: bool = False):
    try:
        t = TEMPLATES[policy][i]
        return ("ok", drive(t.render_async(**data)) if is_async else t.render(**data))
    except UndefinedError:
        return ("undefined", None)
    except LiquidError as e:
        return ("liquid", type(e).__name__)


@cond(
    pre=["0 <= va <= 4", "0 <= vb <= 4"],
    timeout=240,
    shard={"i": list(range(len(PROGRAMS))), "is_async": [False, True]},
    covers="(a) a strict or falsy-strict render that succeeds prints exactly what the default policy prints; (b) a strict UndefinedError implies the default run created an undefined (something missing was used); (c) the default policy never raises UndefinedError; with everything present no policy raises UndefinedError; render() and render_async() (RenderContext.get and get_async are separate code)",
    bounds="15 programs (output, default filter, conditions, loops, filter arguments, lambdas, partial arguments, path segments, assign/capture, case/ternary, ranges/cycle/echo, comparisons); 5 presence bits (a, b, l, o, o.k); values 0..2, nil or false (a variable bound to nil or false exists)",
    stubs=(STUB_STRICT_INIT,),
    grid=lambda: [(i, pa, pb, True, po, pk, va, vb, is_async) for i in range(len(PROGRAMS)) for pa in (False, True) for pb in (False, True) for po in (False, True) for pk in (False, True) for va, vb in ((1, 2), (4, 3), (3, 4)) for is_async in (False, True)],
)
def d_refine(i: int, pa: bool, pb: bool, pl: bool, po: bool, pk: bool, va: int, vb: int, is_async: bool) -> bool:
    data = _data(pa, pb, pl, po, pk, va, vb)
    CREATED[0] = 0
    default = _run(0, i, data, is_async)
    created = CREATED[0]
    if default[0] == "undefined":
        return False
    for policy in (1, 2):
        got = _run(policy, i, _data(pa, pb, pl, po, pk, va, vb), is_async)
        if got[0] == "ok":
            if default[0] != "ok" or got[1] != default[1]:
                return False
        elif got[0] == "undefined":
            if created == 0:
                return False
        else:
            if default[0] == "ok" and created == 0:
                return False
    return True


@cond(
    pre=["0 <= va <= 4", "0 <= vb <= 4"],
    timeout=240,
    shard={"i": list(range(len(PROGRAMS)))},
    covers="with every referenced variable and property present (possibly bound to nil), no undefined policy raises UndefinedError and all three policies print the same",
    bounds="15 programs; values 0..2, nil or false",
    stubs=(STUB_STRICT_INIT,),
    grid=lambda: [(i, va, vb, a) for i in range(len(PROGRAMS)) for va in range(5) for vb in (0, 3, 4) for a in (False, True)],
)
def d_all_present(i: int, va: int, vb: int, is_async: bool) -> bool:
    outs = [_run(p, i, _data(True, True, True, True, True, va, vb), bool(is_async)) for p in range(3)]
    if any(o[0] == "undefined" for o in outs):
        # legitimate only for programs that reference something below a present value (o.k.z, o[b].c):
        # FULLY_PRESENT programs (decided with non-nil data at import) reference nothing that is missing,
        # and binding a name to nil does not make it missing
        return i not in FULLY_PRESENT
    return outs[0] == outs[1] == outs[2]


def _creations(i: int) -> int:
    CREATED[0] = 0
    _run(0, i, _data(True, True, True, True, True, 1, 1))
    return CREATED[0]


FULLY_PRESENT = {i for i in range(len(PROGRAMS)) if _creations(i) == 0}


@cond(pre=["0 <= va <= 2"], twin=True, timeout=60, covers="reachability twin: strict does raise for a missing variable")
def twin_refine(pa: bool, va: int) -> bool:
    return _run(1, 0, _data(pa, True, True, True, True, va, 1))[0] == "ok"
