"""C03 - async rendering is observationally identical to sync rendering."""

from __future__ import annotations

from typing import List

from vf.cond import cond

from .common import DictLoader, LiquidError, concrete_int, drive, in_alpha, tier, untraced

from liquid2 import CachingDictLoader  # noqa: E402
from liquid2.shopify import Environment as ShopifyEnvironment  # noqa: E402

from .C12 import CORPUS as C12_CORPUS  # noqa: E402
from .C11 import EXTRA as C11_EXTRA, PARTS as C11_PARTS  # noqa: E402

EXPLANATION = (
    "Every program of the shared corpora is rendered with render() and with render_async() (driven by a 10-line scheduler, "
    "no event loop) on the same solver-chosen data; outcome = output or (error class, error position, template name). "
    "Concurrent renders: two coroutines over one shared Template suspend at drop await points; the schedule is a vector "
    "of solver-chosen bits; each result must equal its sequential sync render."
)
OUTSIDE = [
    "loaders whose async path uses run_in_executor (FileSystemLoader.get_source_async, PackageLoader): they need a running event loop",
    "more than 3 concurrent renders; scheduling decisions after the first 8 of two renders in the quick tier (thorough: all 11) / first 8 of three renders run first-ready; thread-level concurrency",
]

PARTS = dict(C11_PARTS)
PARTS.update({"snippets/card.html": "({{ card }}{{ v }})", "a/b/c.d.liquid": "<{{ c }}{{ v }}>", "p": "[{{ v }}{{ i }}{{ pg | upcase }}]"})
ENV = ShopifyEnvironment(loader=DictLoader(dict(PARTS)))
EXTRA = [
    "{% include 'snippets/card.html' with x %}|{% include 'snippets/card.html' for a %}|{% render 'snippets/card.html' with x %}|{% render 'a/b/c.d.liquid' for a %}|{% render 'snippets/card.html' for a as v %}",
    "{% if x == 1 %}A{% elsif x == 2 %}B{% elsif b %}C{% else %}D{% endif %}{% if d.k %}K{% elsif d.j == x %}J{% endif %}",
    "{% case x %}{% when 1, d.k %}W{% when d.j or 3 %}X{% else %}Y{% endcase %}{{ d.k | default: d.j }}{{ d[s] }}{{ d.first }}{{ d.size }}{{ a.last }}",
    "{% for i in a offset: continue %}{{ i }}{% endfor %}{% for i in a limit: 1 %}{{ i }}{% endfor %}{% for i in a offset: continue limit: 1 %}{{ i }}{% endfor %}{% for i in a offset: continue %}{{ i }}{% endfor %}",
    "{{ x | divided_by: 0 }}",
    "{% render 'nope' %}",
    "{{ nosuch | nofilter }}",
    "{% for i in (1..3) %}{% if i == x %}{% break %}{% endif %}{{ i | modulo: x }}{% endfor %}",
    "{% if n.n == 9 %}Z{% elsif n.n == x %}B{{ n.n }}{% elsif n.n == 2 %}C{% else %}D{{ n.n }}{% endif %}|{% unless n.n == 4 %}U{% elsif n.n == 5 %}V{% endunless %}|{% case n.n %}{% when 7, 8 %}W{% else %}E{% endcase %}{{ n.n }}",
]
CORPUS = list(C12_CORPUS) + list(C11_EXTRA) + EXTRA
TEMPLATES = []
for _i, _s in enumerate(CORPUS):
    try:
        TEMPLATES.append(ENV.from_string(_s, name=f"t{_i}"))
    except LiquidError:
        TEMPLATES.append(None)


class Counting(dict):
    """A drop whose lookups are not idempotent: `n` counts how often it was read (sync and async paths)."""

    def __init__(self) -> None:
        super().__init__()
        self.reads = 0

    def __getitem__(self, key):  # type: ignore[no-untyped-def]
        if key != "n":
            raise KeyError(key)
        self.reads += 1
        return self.reads - 1

    async def __getitem_async__(self, key):  # type: ignore[no-untyped-def]
        return self[key]


class Drop(dict):
    """A mapping whose async item access is a separate code path (no real suspension)."""

    async def __getitem_async__(self, key):  # type: ignore[no-untyped-def]
        return dict.__getitem__(self, key)


def _outcome(fn):
    try:
        return ("ok", fn())
    except LiquidError as e:
        tok = e.token
        return ("err", type(e).__name__, None if tok is None else tok.start, e.template_name)


for _t in TEMPLATES:
    if _t is not None:
        try:
            _t.render(x=1, b=True, a=[1], s="a", d=Drop(k=1, j=2), k="k", o={}, h=[])
        except Exception:  # noqa: BLE001
            pass


@cond(
    pre=["0 <= x <= 4", "len(a) <= 2", "all(0 <= i <= 3 for i in a)", "len(s) <= 1", "all(c in 'akj' for c in s)", "0 <= dk <= 2"],
    timeout=240,
    shard={"i": list(range(len(CORPUS)))},
    covers="render() and render_async() give the same output, or the same error class at the same token position and template name, for all data: every node and expression with a hand-written async twin is executed on the same values as its sync twin (including drops with __getitem_async__, partials in sub-directories, inheritance, macros, translate, tablerow, offset: continue, errors)",
    bounds="37 programs (C12 corpus + C11 layouts + 9 async-specific: a drop whose lookups count their reads (conditions evaluated exactly as often), sub-directory partials with `with`/`for`, if/elsif chains, case with several values, drop paths, offset: continue sequences, runtime errors); x int 0..4, b bool, s 1-char str, a list len <= 2, drop {k, j} with symbolic presence/values",
    grid=lambda: [(i, x, b, a, s, dk, hk) for i in range(len(CORPUS)) for x in (0, 1, 2) for b in (False, True) for a in ([], [2, 1]) for s in ("", "k") for dk in (0, 1) for hk in (False, True)],
)
def d_same_outcome(i: int, x: int, b: bool, a: List[int], s: str, dk: int, has_k: bool) -> bool:
    t = TEMPLATES[i]
    if t is None:
        return True

    def data():  # type: ignore[no-untyped-def]
        d = Drop(j=x)
        if has_k:
            d["k"] = dk
        return {"x": x, "b": b, "a": a, "s": s, "k": "k", "d": d, "o": {"k": {"z": x}, "a b": s, "it's": b}, "h": [{"k": x}, {"k": 0}, {}], "rx": b, "ql": a, "qg": x, "n": Counting()}

    sync = _outcome(lambda: t.render(**data()))
    asyn = _outcome(lambda: drive(t.render_async(**data())))
    return sync == asyn


# ---- loaders -----------------------------------------------------------------------------------
NAME_ALPHA = "a/."


def _loader_view(t) -> tuple:
    return (t.name, str(t.path), t.full_name())


@cond(
    pre=["1 <= len(name) <= 4", "in_alpha(name, NAME_ALPHA)"],
    timeout=240,
    shard={"caching": [False, True], "ns": [False, True]},
    covers="get_template vs get_template_async: template.name, template.path and full_name() agree for every template name (with directories and dots), with and without a caching loader and a namespace key; the caching loader stores both under the same cache key; `include ... with` binds the same variable name in both modes",
    bounds="template name over {a / .} len 1..4; DictLoader / CachingDictLoader; namespace absent or 'n'",
    grid=lambda: [(n, c, k) for n in ("a", "a/a", "a.a", "a/a.a", "/a", "a/", ".", "..a") for c in (False, True) for k in (False, True)],
)
def k_loader_names(name: str, caching: bool, ns: bool) -> bool:
    def build():  # type: ignore[no-untyped-def]
        src = {name: "[{{ " + "v" + " }}]", "n/" + name: "[n]"}
        loader = CachingDictLoader(src, namespace_key="ns") if caching else DictLoader(src)
        return ShopifyEnvironment(loader=loader), loader

    env1, l1 = build()
    env2, l2 = build()
    kw = {"ns": "n"} if (ns and caching) else {}
    a = _outcome(lambda: _loader_view(env1.get_template(name, **kw)))
    b = _outcome(lambda: _loader_view(drive(env2.get_template_async(name, **kw))))
    if a != b:
        return False
    if caching and sorted(l1.cache.keys()) != sorted(l2.cache.keys()):
        return False
    return True


# ---- analyze() vs analyze_async(): structure chosen by the solver --------------------------------
from .C11 import _same as _analysis_same  # noqa: E402

OUTER = ["{% render 'p' %}", "{% render 'p', t: y %}", "{% include 'p' %}", "{% include 'p', t: y %}", "{% render 'p' with y as t %}", "{% extends 'p' %}{% block b %}{{ g }}{{ block.super }}{% endblock %}"]
INNER = ["", "{% include 'q' %}", "{% render 'q' %}", "{% render 'q', g: t %}", "{% include 'q', g: 1 %}", "{% extends 'q' %}{% block b %}{{ t }}{{ u }}{% endblock %}", "{% for i in t %}{% include 'q' %}{% endfor %}", "{% macro m, g %}{% include 'q' %}{% endmacro %}{% call m, 1 %}"]
LEAF = ["({{ g }}{{ t }}{{ z }})", "{% block b %}({{ g }}{{ t }}{{ z }}){% endblock %}"]
PRE = ["", "{% assign g = 1 %}", "{% assign t = 2 %}{% capture z %}{% endcapture %}"]


def _analysis_env(o: int, n: int, pre: int):  # type: ignore[no-untyped-def]
    inner = INNER[n]
    leaf = LEAF[1] if "extends" in inner or "extends" in OUTER[o] else LEAF[0]
    p_src = inner + ("" if "extends" in inner else "{% block b %}[{{ t }}{{ w }}]{% endblock %}" if "extends" in OUTER[o] else "[{{ t }}{{ w }}]")
    env = ShopifyEnvironment(loader=DictLoader({"p": p_src, "q": leaf}))
    main = (OUTER[o] if "extends" in OUTER[o] else PRE[pre] + OUTER[o] + "{{ g }}{{ t }}")
    return env, main


@cond(
    pre=["0 <= o < len(OUTER)", "0 <= n < len(INNER)", "0 <= pre < len(PRE)"],
    timeout=240,
    covers="analyze() and analyze_async() return the same variables, globals, locals, filters and tags (names and spans) for every two-level partial structure: render / include / extends (with keyword arguments, with-binding, inside for and macro) loading a partial that itself renders / includes / extends another, with and without same-named local assignments in the root",
    bounds="6 outer x 8 inner constructs x 3 root prefixes (solver-chosen, 144 structures); no data",
    grid=lambda: [(o, n, pr) for o in range(len(OUTER)) for n in range(len(INNER)) for pr in range(len(PRE))],
)
def s_analyze_same(o: int, n: int, pre: int) -> bool:
    o, n, pre = concrete_int(o, 0, len(OUTER) - 1), concrete_int(n, 0, len(INNER) - 1), concrete_int(pre, 0, len(PRE) - 1)

    def run():  # type: ignore[no-untyped-def]
        env, main = _analysis_env(o, n, pre)
        try:
            t = env.from_string(main)
        except LiquidError:
            return True  # not a well-formed structure (e.g. extends after content): nothing to compare
        a = _outcome(lambda: t.analyze())
        b = _outcome(lambda: drive(t.analyze_async()))
        if a[0] != b[0]:
            return False
        if a[0] != "ok":
            return a == b
        return _analysis_same(a[1], b[1])

    return untraced(run)


INCLUDE_WITH = [
    ("snippets/card.html", "card"), ("a/b/c.d.liquid", "c"),
]
INC_T = [ENV.from_string("{% include '" + n + "' with x %}|{% render '" + n + "' with x %}|{% include '" + n + "' for a %}") for n, _ in INCLUDE_WITH]


@cond(
    pre=["0 <= x <= 3", "len(a) <= 2", "all(0 <= i <= 3 for i in a)"],
    timeout=120,
    shard={"i": [0, 1]},
    covers="the variable bound by `include/render ... with/for` for a partial in a sub-directory is the partial's base name in both modes (x is printed, not lost)",
    bounds="2 partial names with directories and dots; x 0..3; list len <= 2",
    grid=lambda: [(i, 2, [1, 3]) for i in (0, 1)],
)
def d_with_binding(i: int, x: int, a: List[int]) -> bool:
    t = INC_T[i]
    s = t.render(x=x, a=a)
    r = drive(t.render_async(x=x, a=a))
    return s == r and s.count(str(x)) >= 2


# ---- interleavings -----------------------------------------------------------------------------
class _Yield:
    def __await__(self):  # type: ignore[no-untyped-def]
        yield self


class SlowDrop(dict):
    """A drop whose async item access really suspends (one scheduling point per lookup)."""

    async def __getitem_async__(self, key):  # type: ignore[no-untyped-def]
        await _Yield()
        return dict.__getitem__(self, key)


SCHED_SRC = [
    "{% increment c %}{{ d.a }}{% increment c %}{% cycle 'p', 'q' %}{{ d.b }}{% cycle 'p', 'q' %}{{ c }}{% assign z = d.a %}{{ z }}",
    "{% for i in l limit: 1 %}{{ i }}{{ d.a }}{% endfor %}{% for i in l offset: continue %}{{ i }}{{ d.b }}{% endfor %}{% capture q %}{{ d.a }}{% endcapture %}{{ q }}",
    "{% macro m, u %}<{{ u }}{{ d.b }}>{% endmacro %}{% call m, d.a %}{% call m, 9 %}{% render 'p', v: d.a %}{% include 'p', v: d.b %}".replace("<", "(").replace(">", ")"),
    "{% extends 'base' %}{% block b %}[{{ d.a }}{{ block.super }}{{ d.b }}]{% endblock %}{% block c %}{{ d.a }}{% endblock %}",
]
SCHED_T = [ENV.from_string(s) for s in SCHED_SRC]
for _t in SCHED_T:
    try:
        _t.render(d={"a": 1, "b": 2}, l=[1, 2])
    except Exception:  # noqa: BLE001
        pass


def _interleave(coros, schedule: list[int]):
    """Run coroutines to completion; at every suspension point the next schedule entry picks who runs."""
    results: list = [None] * len(coros)
    live = list(range(len(coros)))
    k = 0
    while live:
        if len(live) > 1:
            pick = live[(schedule[k] if k < len(schedule) else 0) % len(live)]
            k += 1
        else:
            pick = live[0]
        try:
            coros[pick].send(None)
        except StopIteration as e:
            results[pick] = ("ok", e.value)
            live.remove(pick)
        except LiquidError as e:
            results[pick] = ("err", type(e).__name__)
            live.remove(pick)
    return results


def _interleave_ok(ts: list[int], datas: list[tuple[int, int]], schedule: list[int]) -> bool:
    wants, coros = [], []
    for ti, (va, vb) in zip(ts, datas):
        t = SCHED_T[ti]
        wants.append(_outcome(lambda t=t, va=va, vb=vb: t.render(d={"a": va, "b": vb}, l=[va, vb, 3]))[:2])
        coros.append(t.render_async(d=SlowDrop(a=va, b=vb), l=[va, vb, 3]))
    return _interleave(coros, schedule) == wants


@cond(
    pre=["0 <= v1 <= 1", "0 <= v2 <= 2"],
    timeout=400,
    timeout_thorough=1500,
    shard={"p": [0, 1, 2, 3], "q": [0, 1, 2, 3]},
    covers="two concurrent render_async() of shared Template objects (same or different template) suspended at drop lookups: for every interleaving of the first 8 scheduling decisions (thorough: 11, which is every decision any of the 16 pairs can take, so all interleavings) each coroutine returns exactly what a sequential render() with its own data returns (counters, cycles, offset: continue, captures, macros, partial renders and extends block stacks are per render)",
    bounds="4 x 4 template pairs sharing one Environment; 2^8 (thorough 2^11 = exhaustive) schedules (solver bits), later suspensions run first-ready; data values 0..1 x 0..2 (equal and distinct values for the two renders)",
    grid=lambda: [(p, q, 1, 2, s, not s, s, s, not s, True, s, False, True, s, not s) for p in range(4) for q in range(4) for s in (False, True)],
)
def s_interleave(p: int, q: int, v1: int, v2: int, s0: bool, s1: bool, s2: bool, s3: bool, s4: bool, s5: bool, s6: bool, s7: bool, s8: bool, s9: bool, s10: bool) -> bool:
    v1, v2 = concrete_int(v1, 0, 1), concrete_int(v2, 0, 2)
    bits = [s0, s1, s2, s3, s4, s5, s6, s7] + ([s8, s9, s10] if tier() == "thorough" else [])
    schedule = [1 if b else 0 for b in bits]
    # every input is concrete from here on: the solver enumerates schedules and data, the real code runs outside the tracer
    return untraced(lambda: _interleave_ok([p, q], [(v1, v2), (v2, v1)], schedule))


TRIPLES = [(0, 1, 2), (1, 2, 3), (0, 0, 0), (3, 3, 3), (2, 2, 1), (0, 3, 1), (1, 1, 3), (2, 0, 2)]


@cond(
    pre=["all(0 <= k <= 2 for k in (k0, k1, k2, k3, k4, k5, k6, k7))", "0 <= v1 <= 1"],
    timeout=1500,
    tiers=("thorough",),
    shard={"tr": list(range(len(TRIPLES)))},
    covers="three concurrent render_async() of shared Template objects: every choice of the first 8 scheduling decisions among the live coroutines, as s_interleave",
    bounds="8 template triples; 3^8 schedules; data value 0..1",
)
def s_interleave3(tr: int, v1: int, k0: int, k1: int, k2: int, k3: int, k4: int, k5: int, k6: int, k7: int) -> bool:
    v1 = concrete_int(v1, 0, 1)
    schedule = [concrete_int(k, 0, 2) for k in (k0, k1, k2, k3, k4, k5, k6, k7)]
    return untraced(lambda: _interleave_ok(list(TRIPLES[tr]), [(v1, 2), (3, v1), (v1, v1)], schedule))


@cond(pre=["0 <= v1 <= 3"], twin=True, timeout=60, covers="reachability twin: coroutines really suspend at drop lookups (more than one scheduling decision is taken)")
def twin_interleave(v1: int) -> bool:
    c = SCHED_T[0].render_async(d=SlowDrop(a=v1, b=1), l=[])
    n = 0
    try:
        while True:
            c.send(None)
            n += 1
    except StopIteration:
        pass
    return n == 0
