"""C03 - async rendering is observationally identical to sync rendering."""

from __future__ import annotations

from typing import List

from vf.cond import cond

from .common import DictLoader, LiquidError, concrete_int, drive, in_alpha, untraced

from liquid2 import CachingDictLoader  # noqa: E402
from liquid2.shopify import Environment as ShopifyEnvironment  # noqa: E402

from .C12 import CORPUS as C12_CORPUS  # noqa: E402
from .C11 import EXTRA as C11_EXTRA, PARTS as C11_PARTS  # noqa: E402

EXPLANATION = (
    "Every program of the shared corpora is rendered with render() and with render_async() (driven by a 10-line scheduler, "
    "no event loop) on the same solver-chosen data; outcome = output or (error class, error position, template name). "
    "Concurrent renders: two coroutines over one shared Template suspend at drop await points; the schedule is a vector "
    "of solver-chosen bits; each result must equal its sequential sync render."
)
OUTSIDE = [
    "loaders whose async path uses run_in_executor (FileSystemLoader.get_source_async, PackageLoader): they need a running event loop",
    "more than 2 concurrent renders / more than 6 scheduling decisions; thread-level concurrency",
]

PARTS = dict(C11_PARTS)
PARTS.update({"snippets/card.html": "({{ card }}{{ v }})", "a/b/c.d.liquid": "<{{ c }}{{ v }}>", "p": "[{{ v }}{{ i }}{{ pg | upcase }}]"})
ENV = ShopifyEnvironment(loader=DictLoader(dict(PARTS)))
EXTRA = [
    "{% include 'snippets/card.html' with x %}|{% include 'snippets/card.html' for a %}|{% render 'snippets/card.html' with x %}|{% render 'a/b/c.d.liquid' for a %}|{% render 'snippets/card.html' for a as v %}",
    "{% if x == 1 %}A{% elsif x == 2 %}B{% elsif b %}C{% else %}D{% endif %}{% if d.k %}K{% elsif d.j == x %}J{% endif %}",
    "{% case x %}{% when 1, d.k %}W{% when d.j or 3 %}X{% else %}Y{% endcase %}{{ d.k | default: d.j }}{{ d[s] }}{{ d.first }}{{ d.size }}{{ a.last }}",
    "{% for i in a offset: continue %}{{ i }}{% endfor %}{% for i in a limit: 1 %}{{ i }}{% endfor %}{% for i in a offset: continue limit: 1 %}{{ i }}{% endfor %}{% for i in a offset: continue %}{{ i }}{% endfor %}",
    "{{ x | divided_by: 0 }}",
    "{% render 'nope' %}",
    "{{ nosuch | nofilter }}",
    "{% for i in (1..3) %}{% if i == x %}{% break %}{% endif %}{{ i | modulo: x }}{% endfor %}",
    "{% if n.n == 9 %}Z{% elsif n.n == x %}B{{ n.n }}{% elsif n.n == 2 %}C{% else %}D{{ n.n }}{% endif %}|{% unless n.n == 4 %}U{% elsif n.n == 5 %}V{% endunless %}|{% case n.n %}{% when 7, 8 %}W{% else %}E{% endcase %}{{ n.n }}",
]
CORPUS = list(C12_CORPUS) + list(C11_EXTRA) + EXTRA
TEMPLATES = []
for _i, _s in enumerate(CORPUS):
    try:
        TEMPLATES.append(ENV.from_string(_s, name=f"t{_i}"))
    except LiquidError:
        TEMPLATES.append(None)


class Counting(dict):
    """A drop whose lookups are not idempotent: `n` counts how often it was read (sync and async paths)."""

    def __init__(self) -> None:
        super().__init__()
        self.reads = 0

    def __getitem__(self, key):  # type: ignore[no-untyped-def]
        if key != "n":
            raise KeyError(key)
        self.reads += 1
        return self.reads - 1

    async def __getitem_async__(self, key):  # type: ignore[no-untyped-def]
        return self[key]


class Drop(dict):
    """A mapping whose async item access is a separate code path (no real suspension)."""

    async def __getitem_async__(self, key):  # type: ignore[no-untyped-def]
        return dict.__getitem__(self, key)


def _outcome(fn):
    try:
        return ("ok", fn())
    except LiquidError as e:
        tok = e.token
        return ("err", type(e).__name__, None if tok is None else tok.start, e.template_name)


for _t in TEMPLATES:
    if _t is not None:
        try:
            _t.render(x=1, b=True, a=[1], s="a", d=Drop(k=1, j=2), k="k", o={}, h=[])
        except Exception:  # noqa: BLE001
            pass


@cond(
    pre=["0 <= x <= 4", "len(a) <= 2", "all(0 <= i <= 3 for i in a)", "len(s) <= 1", "all(c in 'akj' for c in s)", "0 <= dk <= 2"],
    timeout=240,
    shard={"i": list(range(len(CORPUS)))},
    covers="render() and render_async() give the same output, or the same error class at the same token position and template name, for all data: every node and expression with a hand-written async twin is executed on the same values as its sync twin (including drops with __getitem_async__, partials in sub-directories, inheritance, macros, translate, tablerow, offset: continue, errors)",
    bounds="37 programs (C12 corpus + C11 layouts + 9 async-specific: a drop whose lookups count their reads (conditions evaluated exactly as often), sub-directory partials with `with`/`for`, if/elsif chains, case with several values, drop paths, offset: continue sequences, runtime errors); x int 0..4, b bool, s 1-char str, a list len <= 2, drop {k, j} with symbolic presence/values",
    grid=lambda: [(i, x, b, a, s, dk, hk) for i in range(len(CORPUS)) for x in (0, 1, 2) for b in (False, True) for a in ([], [2, 1]) for s in ("", "k") for dk in (0, 1) for hk in (False, True)],
)
def d_same_outcome(i: int, x: int, b: bool, a: List[int], s: str, dk: int, has_k: bool) -> bool:
    t = TEMPLATES[i]
    if t is None:
        return True

    def data():  # type: ignore[no-untyped-def]
        d = Drop(j=x)
        if has_k:
            d["k"] = dk
        return {"x": x, "b": b, "a": a, "s": s, "k": "k", "d": d, "o": {"k": {"z": x}, "a b": s, "it's": b}, "h": [{"k": x}, {"k": 0}, {}], "rx": b, "ql": a, "qg": x, "n": Counting()}

    sync = _outcome(lambda: t.render(**data()))
    asyn = _outcome(lambda: drive(t.render_async(**data())))
    return sync == asyn


# ---- loaders -----------------------------------------------------------------------------------
NAME_ALPHA = "a/."


def _loader_view(t) -> tuple:
    return (t.name, str(t.path), t.full_name())


@cond(
    pre=["1 <= len(name) <= 4", "in_alpha(name, NAME_ALPHA)"],
    timeout=240,
    shard={"caching": [False, True], "ns": [False, True]},
    covers="get_template vs get_template_async: template.name, template.path and full_name() agree for every template name (with directories and dots), with and without a caching loader and a namespace key; the caching loader stores both under the same cache key; `include ... with` binds the same variable name in both modes",
    bounds="template name over {a / .} len 1..4; DictLoader / CachingDictLoader; namespace absent or 'n'",
    grid=lambda: [(n, c, k) for n in ("a", "a/a", "a.a", "a/a.a", "/a", "a/", ".", "..a") for c in (False, True) for k in (False, True)],
)
def k_loader_names(name: str, caching: bool, ns: bool) -> bool:
    def build():  # type: ignore[no-untyped-def]
        src = {name: "[{{ " + "v" + " }}]", "n/" + name: "[n]"}
        loader = CachingDictLoader(src, namespace_key="ns") if caching else DictLoader(src)
        return ShopifyEnvironment(loader=loader), loader

    env1, l1 = build()
    env2, l2 = build()
    kw = {"ns": "n"} if (ns and caching) else {}
    a = _outcome(lambda: _loader_view(env1.get_template(name, **kw)))
    b = _outcome(lambda: _loader_view(drive(env2.get_template_async(name, **kw))))
    if a != b:
        return False
    if caching and sorted(l1.cache.keys()) != sorted(l2.cache.keys()):
        return False
    return True


INCLUDE_WITH = [
    ("snippets/card.html", "card"), ("a/b/c.d.liquid", "c"),
]
INC_T = [ENV.from_string("{% include '" + n + "' with x %}|{% render '" + n + "' with x %}|{% include '" + n + "' for a %}") for n, _ in INCLUDE_WITH]


@cond(
    pre=["0 <= x <= 3", "len(a) <= 2", "all(0 <= i <= 3 for i in a)"],
    timeout=120,
    shard={"i": [0, 1]},
    covers="the variable bound by `include/render ... with/for` for a partial in a sub-directory is the partial's base name in both modes (x is printed, not lost)",
    bounds="2 partial names with directories and dots; x 0..3; list len <= 2",
    grid=lambda: [(i, 2, [1, 3]) for i in (0, 1)],
)
def d_with_binding(i: int, x: int, a: List[int]) -> bool:
    t = INC_T[i]
    s = t.render(x=x, a=a)
    r = drive(t.render_async(x=x, a=a))
    return s == r and s.count(str(x)) >= 2


# ---- interleavings -----------------------------------------------------------------------------
class _Yield:
    def __await__(self):  # type: ignore[no-untyped-def]
        yield self


class SlowDrop(dict):
    """A drop whose async item access really suspends (one scheduling point per lookup)."""

    async def __getitem_async__(self, key):  # type: ignore[no-untyped-def]
        await _Yield()
        return dict.__getitem__(self, key)


SCHED_SRC = [
    "{% increment c %}{{ d.a }}{% increment c %}{% cycle 'p', 'q' %}{{ d.b }}{% cycle 'p', 'q' %}{{ c }}{% assign z = d.a %}{{ z }}",
    "{% for i in l limit: 1 %}{{ i }}{{ d.a }}{% endfor %}{% for i in l offset: continue %}{{ i }}{{ d.b }}{% endfor %}{% capture q %}{{ d.a }}{% endcapture %}{{ q }}",
    "{% macro m, u %}<{{ u }}{{ d.b }}>{% endmacro %}{% call m, d.a %}{% call m, 9 %}{% render 'p', v: d.a %}{% include 'p', v: d.b %}".replace("<", "(").replace(">", ")"),
    "{% extends 'base' %}{% block b %}[{{ d.a }}{{ block.super }}{{ d.b }}]{% endblock %}{% block c %}{{ d.a }}{% endblock %}",
]
SCHED_T = [ENV.from_string(s) for s in SCHED_SRC]
for _t in SCHED_T:
    try:
        _t.render(d={"a": 1, "b": 2}, l=[1, 2])
    except Exception:  # noqa: BLE001
        pass


def _interleave(coros, schedule: list[bool]):
    """Run coroutines to completion; at every suspension point the next bit picks who runs."""
    results: list = [None, None]
    live = [0, 1]
    k = 0
    while live:
        if len(live) == 2:
            pick = live[1] if (k < len(schedule) and schedule[k]) else live[0]
            k += 1
        else:
            pick = live[0]
        try:
            coros[pick].send(None)
        except StopIteration as e:
            results[pick] = ("ok", e.value)
            live.remove(pick)
        except LiquidError as e:
            results[pick] = ("err", type(e).__name__)
            live.remove(pick)
    return results


@cond(
    pre=["0 <= v1 <= 3", "0 <= v2 <= 3"],
    timeout=300,
    shard={"p": [0, 1, 2, 3], "q": [0, 1, 2, 3]},
    covers="two concurrent render_async() of shared Template objects (same or different template) suspended at drop lookups: for every interleaving of the first 6 scheduling decisions each coroutine returns exactly what a sequential render() with its own data returns (counters, cycles, offset: continue, captures, macros, partial renders and extends block stacks are per render)",
    bounds="4 x 4 template pairs sharing one Environment; 2^6 schedules (solver bits), remaining suspensions run first-ready; data values 0..3",
    grid=lambda: [(p, q, 1, 2, s, not s, s, s, not s, True) for p in range(4) for q in range(4) for s in (False, True)],
)
def s_interleave(p: int, q: int, v1: int, v2: int, s0: bool, s1: bool, s2: bool, s3: bool, s4: bool, s5: bool) -> bool:
    t1, t2 = SCHED_T[p], SCHED_T[q]
    want1 = _outcome(lambda: t1.render(d={"a": v1, "b": v2}, l=[v1, v2, 3]))[:2]
    want2 = _outcome(lambda: t2.render(d={"a": v2, "b": v1}, l=[v2, v1]))[:2]
    c1 = t1.render_async(d=SlowDrop(a=v1, b=v2), l=[v1, v2, 3])
    c2 = t2.render_async(d=SlowDrop(a=v2, b=v1), l=[v2, v1])
    r = _interleave([c1, c2], [s0, s1, s2, s3, s4, s5])
    return r[0] == want1 and r[1] == want2


@cond(pre=["0 <= v1 <= 3"], twin=True, timeout=60, covers="reachability twin: coroutines really suspend at drop lookups (more than one scheduling decision is taken)")
def twin_interleave(v1: int) -> bool:
    c = SCHED_T[0].render_async(d=SlowDrop(a=v1, b=1), l=[])
    n = 0
    try:
        while True:
            c.send(None)
            n += 1
    except StopIteration:
        pass
    return n == 0
