"""C11 - static analysis over-approximates runtime usage and reports exact locations."""

from __future__ import annotations

from io import StringIO
from typing import List

from vf.cond import cond

from .common import DictLoader, LiquidError, concrete_int, drive, untraced

from liquid2 import RenderContext  # noqa: E402
from liquid2.ast import BlockNode, ConditionalBlockNode, Node  # noqa: E402
from liquid2.builtin.tags.case_tag import MultiExpressionBlockNode  # noqa: E402
from liquid2.shopify import Environment as ShopifyEnvironment  # noqa: E402
from liquid2.token import is_lines_token, is_tag_token  # noqa: E402

from .C12 import CORPUS as C12_CORPUS  # noqa: E402

EXPLANATION = (
    "Runtime usage is recorded by an instrumented RenderContext (variable roots resolved, filters looked up), an "
    "instrumented globals mapping (names that reach the global namespace) and a node-render trace; data are solver "
    "variables, so every feasible branch of each corpus program is executed; on every path the recorded sets must be "
    "subsets of what analyze() reports. Span exactness is decided per template (it does not depend on data)."
)
OUTSIDE = [
    "programs outside the corpus (C12's templates + the partial/comment layouts listed in EXTRA)",
    "span exactness for arbitrary source text rests on the lexer invariant of C17 (inductive step) - here it is checked on the corpus layouts, which put every comment kind in front of every reported construct",
]

PARTS = {
    "p": "[{{ v }}{{ i }}{{ pg | upcase }}]",
    "base": "B{% block b %}p{{ bg }}{% endblock %}{% block c required %}{% endblock %}E",
    "q": "{% assign qa = qg | plus: 1 %}{{ qa }}{% for j in ql %}{{ j }}{% endfor %}{% render 'p', v: qa %}",
    "r": "{% if rx %}{% include 'q' %}{% else %}{{ ry | downcase }}{% endif %}",
    "rec": "{{ depth }}{% if depth > 1 %}{% assign d2 = depth | minus: 1 %}{% include 'rec', depth: d2 %}{% endif %}",
}
ENV = ShopifyEnvironment(loader=DictLoader(dict(PARTS)))

EXTRA = [
    "{# c #}{{ x }}{% # c %}{{ s | upcase }}{% comment %}c{% endcomment %}{% assign z = a | first %}{{ z }}",
    "{% include 'q' %}{{ qa }}{% render 'q' %}{{ qa }}{% include 'r' %}",
    "{% if x %}{% render 'r', rx: b %}{% else %}{% include 'r' %}{% endif %}{{ now | date: '%Y' }}",
    "{{ z }}{% assign z = 1 %}{{ z }}{% increment n %}{{ n }}{% capture c %}{{ x }}{% endcapture %}{{ c | size }}",
    "{% for i in a %}{{ forloop.index }}{{ i }}{% for j in a %}{{ forloop.parentloop.index }}{% endfor %}{% endfor %}{{ i }}{{ forloop }}",
    "{{ a | map: i => i.k | join: ',' }}{{ a | where: (it, idx) => idx == x | size }}{{ i }}{{ it }}",
    "{## c ##}\n  {%- liquid\n  # c\n  assign w = x | plus: 1\n  echo w | minus: 1\n  if w\n    echo s | append: 'y'\n  endif\n-%}{{ w }}",
    "{% macro m, u, w: x %}{{ u }}{{ w }}{{ g1 }}{% endmacro %}{% call m, s, w: b %}{% with k: x %}{{ k }}{{ g2 }}{% endwith %}{{ k }}{{ u }}",
    "{% include 'p', v: x %}{% include 'p', v: s %}{{ v }}|{% include 'p' with x as i %}{% include 'p' with s as i %}{{ i }}{{ pg }}",
    "{% for v in a %}{{ v }}{% endfor %}{{ v }}{% with pg: 1 %}{{ pg }}{% endwith %}{{ pg }}{% render 'p', v: x %}{% render 'p', v: s %}{{ v }}{{ i }}{{ a | map: q => q | first }}{{ q }}",
    "{% if b %}{% include 'rec', depth: x %}{% endif %}{{ depth }}",
    # every position of a ternary that can hold a variable: condition, alternative, filter arguments after `if`, after `else` and after `||`, with and without an else branch
    "{{ x if b || default: qg }}{% assign z = a.first if rx || append: k %}{{ z }}{% echo x if b else s || plus: ql.first %}{{ x | plus: h.size if b }}{{ 'q' if o.k else 'r' | append: 'a' }}",
]
# The filters of a ternary's left-hand side are a recorded finding (known_findings.json): they get a program of their own
KF_TERNARY = "{{ x | plus: 1 if b else s | upcase }}"
# A partial is analysed once (the first time it is reached): recorded finding, own program
KF_PARTIAL_ONCE = "{% include 'p', v: x %}{% include 'p' %}"
# the two recorded findings keep fixed indexes (known_findings.json names their shards), whatever is appended to the corpora
KF_TERNARY_INDEX = 0
KF_PARTIAL_ONCE_INDEX = 1
CORPUS = [KF_TERNARY, KF_PARTIAL_ONCE] + [
    c.replace("{{ x | plus: 1 if x > 1 else 0", "{{ x if x > 1 else 0").replace("{% include 'p' for a %}", "{% include 'p' for a as v %}")
    for c in C12_CORPUS
] + EXTRA
TEMPLATES = [ENV.from_string(s, name=f"t{i}") for i, s in enumerate(CORPUS)]
SOURCES = {f"t{i}": s for i, s in enumerate(CORPUS)}
SOURCES.update(PARTS)

_SKIP = (BlockNode, ConditionalBlockNode, MultiExpressionBlockNode)
TRACE: list = []
_orig_render = Node.render
_orig_render_async = Node.render_async


def _traced_render(self, context, buffer):  # type: ignore[no-untyped-def]
    if not isinstance(self, _SKIP) and (is_tag_token(self.token) or is_lines_token(self.token)):
        TRACE.append(self.token.name)
    return _orig_render(self, context, buffer)


async def _traced_render_async(self, context, buffer):  # type: ignore[no-untyped-def]
    if not isinstance(self, _SKIP) and (is_tag_token(self.token) or is_lines_token(self.token)):
        TRACE.append(self.token.name)
    return await _orig_render_async(self, context, buffer)


Node.render = _traced_render  # type: ignore[method-assign]
Node.render_async = _traced_render_async  # type: ignore[method-assign]


class LogCtx(RenderContext):
    __slots__ = ()
    USED_VARS: list = []
    USED_FILTERS: list = []

    def get(self, path, *, token, default=None, **kw):  # type: ignore[no-untyped-def]
        LogCtx.USED_VARS.append(str(path[0]))
        return RenderContext.get(self, path, token=token) if default is None else RenderContext.get(self, path, token=token, default=default)

    async def get_async(self, path, *, token, default=None, **kw):  # type: ignore[no-untyped-def]
        LogCtx.USED_VARS.append(str(path[0]))
        return await RenderContext.get_async(self, path, token=token)

    def filter(self, name, *, token):  # type: ignore[no-untyped-def]
        LogCtx.USED_FILTERS.append(name)
        return RenderContext.filter(self, name, token=token)


class LogGlobals(dict):
    SEEN: list = []

    def __getitem__(self, key):  # type: ignore[no-untyped-def]
        LogGlobals.SEEN.append(key)
        return dict.__getitem__(self, key)


ANALYSES = []
ANALYSES_ASYNC_EQUAL = []
SPAN_ERRORS = []


def _same(a, b) -> bool:
    def norm(m):  # type: ignore[no-untyped-def]
        return {k: sorted((str(v), v.span.template_name, v.span.start, v.span.end) for v in vs) for k, vs in m.items()}

    def norms(m):  # type: ignore[no-untyped-def]
        return {k: sorted((s.template_name, s.start, s.end) for s in vs) for k, vs in m.items()}

    return (
        norm(a.variables) == norm(b.variables) and norm(a.globals) == norm(b.globals) and norm(a.locals) == norm(b.locals)
        and norms(a.filters) == norms(b.filters) and norms(a.tags) == norms(b.tags)
    )


def _check_spans(an) -> str | None:
    for name, vs in an.variables.items():
        for v in vs:
            src = SOURCES.get(v.span.template_name)
            if src is None:
                return f"unknown template {v.span.template_name!r}"
            text = src[v.span.start : v.span.end]
            try:
                back = ENV.from_string("{{ " + text + " }}").analyze().variables
            except LiquidError:
                return f"span of variable {v} is {text!r}"
            got = [str(x) for xs in back.values() for x in xs]
            if str(v) not in got or text != text.strip() or len(back) < 1:
                return f"span of variable {v} is {text!r}"
            if [str(x) for x in back.get(name, [])][:1] != [str(v)]:
                return f"span of variable {v} is {text!r}"
    for name, spans in an.filters.items():
        for s in spans:
            text = SOURCES[s.template_name][s.start : s.end]
            if text != name:
                return f"span of filter {name} is {text!r}"
    for name, spans in an.tags.items():
        for s in spans:
            text = SOURCES[s.template_name][s.start : s.end]
            ok = (text.startswith("{%") and text.endswith("%}") and text[2:].lstrip("-+~ \n\t").startswith(name)) or text.startswith(name)
            if not ok:
                return f"span of tag {name} is {text!r}"
    return None


for _t in TEMPLATES:
    _an, _eq, _se = None, False, None
    try:
        _an = _t.analyze()
        _eq = _same(_an, drive(_t.analyze_async()))
        _se = _check_spans(_an)
    except Exception as _e:  # noqa: BLE001
        _se = f"{type(_e).__name__}: {_e}"
    ANALYSES.append(_an)
    ANALYSES_ASYNC_EQUAL.append(_eq)
    SPAN_ERRORS.append(_se)


@cond(
    pre=["0 <= x <= 4", "len(a) <= 2", "all(0 <= i <= 3 for i in a)", "len(s) <= 1", "all(c in 'ab' for c in s)"],
    timeout=240,
    shard={"i": list(range(len(CORPUS)))},
    covers="on every path through each program (and the partials/parents it loads): variables resolved, filters applied and tags rendered are subsets of analyze().variables/.filters/.tags; every name that reaches the global namespace and is never bound by the template is in analyze().globals; analyze_async() returns the same maps; every reported span is exactly the variable path / filter name / tag",
    bounds=str(len(CORPUS)) + " programs (C12 corpus + partial/inheritance/comment/liquid/macro/lambda layouts), sync and async render; x int 0..4, b bool, s str over {a b} len <= 1, a list len <= 2 of ints",
    stubs=("Node.render/render_async wrapped to log rendered tag names; RenderContext subclass logging get()/filter(); dict subclass logging global lookups",),
    grid=lambda: [(i, x, b, a, s, m) for i in range(len(CORPUS)) for x in (0, 1, 3) for b in (False, True) for a in ([], [2, 1]) for s in ("", "a") for m in (False, True)],
)
def d_sound(i: int, x: int, b: bool, a: List[int], s: str, is_async: bool) -> bool:
    an = ANALYSES[i]
    if an is None or not ANALYSES_ASYNC_EQUAL[i] or SPAN_ERRORS[i] is not None:
        return False
    t = TEMPLATES[i]
    data = LogGlobals({"x": x, "b": b, "a": a, "s": s, "k": "k", "o": {"k": {"z": x}, "a b": s}, "h": [{"k": x}, {}], "rx": b, "ql": a, "qg": x,
                       "v": "gv", "i": "gi", "pg": "gpg", "q": "gq", "depth": 0, "u": "gu", "g1": 1, "g2": 2, "w": "gw"})
    LogGlobals.SEEN.clear()
    LogCtx.USED_VARS.clear()
    LogCtx.USED_FILTERS.clear()
    TRACE.clear()
    ctx = LogCtx(t, global_data=t.make_globals(data))
    try:
        if is_async:
            drive(t.render_with_context_async(ctx, StringIO()))
        else:
            t.render_with_context(ctx, StringIO())
    except LiquidError:
        pass
    if not set(LogCtx.USED_VARS) <= set(an.variables):
        return False
    if not set(LogCtx.USED_FILTERS) <= set(an.filters):
        return False
    if not set(TRACE) <= set(an.tags):
        return False
    # a lookup that reached the global namespace fell through every local and block scope: it is a global use,
    # whatever the same name is bound to elsewhere in the template
    bound = set(an.locals)
    for name in set(LogGlobals.SEEN):
        if name in ("translations",):
            continue
        if name not in an.globals and name not in bound:
            return False
    return True


@cond(pre=["0 <= x <= 4"], twin=True, timeout=60, covers="reachability twin: the instrumentation records lookups")
def twin_sound(x: int) -> bool:
    LogCtx.USED_VARS.clear()
    t = TEMPLATES[1]
    ctx = LogCtx(t, global_data={"x": x})
    t.render_with_context(ctx, StringIO())
    return not LogCtx.USED_VARS


# ---- every expression position is visited by the analysis (one unique name per position) -----------
UNIQ = [
    "{{ u1 }}{{ u2.a[u3] }}{{ u4 | append: u5 }}{{ u6 | default: u7, allow_false: u8 }}{{ u9 | map: i => i[u10] }}{{ u11 | where: 'k', u12 }}",
    "{{ u1 if u2 else u3 }}{{ u4 | plus: u5 if u6 else u7 | minus: u8 || times: u9 }}{{ u10 if u11 || default: u12 }}{{ u13 if not (u14 == u15 or u16 contains u17) and u18 in u19 }}",
    "{% for i in u1 limit: u2 offset: u3 %}{{ i }}{{ u4 }}{% else %}{{ u5 }}{% endfor %}{% for j in (u6..u7) %}{% if j == u8 %}{% break %}{% endif %}{% endfor %}{% tablerow r in u9 cols: u10 limit: u11 offset: u12 %}{{ u13 }}{% endtablerow %}",
    "{% if u1 %}{{ u2 }}{% elsif u3 > u4 %}{{ u5 }}{% else %}{{ u6 }}{% endif %}{% unless u7 %}{{ u8 }}{% else %}{{ u9 }}{% endunless %}{% case u10 %}{% when u11, u12 %}{{ u13 }}{% when 1 or u14 %}{% else %}{{ u15 }}{% endcase %}",
    "{% assign z = u1 | append: u2 %}{% capture c %}{{ u3 }}{% endcapture %}{% echo u4 | plus: u5 %}{% cycle u6, u7 %}{% cycle 'g': u9, 2 %}{% with a: u10, b: u11 %}{{ a }}{{ u12 }}{% endwith %}{% increment n %}",
    "{% render 'p', v: u1 %}{% render 'p' with u2 as v %}{% render 'p' for u3 as v %}{% include 'p', v: u4 %}{% include 'p' with u5 %}{% include 'p' for u6 as w %}",
    "{% macro m, a, b: u1 %}{{ a }}{{ b }}{{ u2 }}{% endmacro %}{% call m, u3, b: u4 %}{% call m, u5 %}",
    "{{ \"a${u1}b${ u2 | append: u3 }\" }}{{ 'x${ u4[u5] }' | append: \"${u6}\" }}{% liquid\n echo u7\n assign y = u8 | plus: u9\n if u10\n echo u11\n endif\n for i in u12\n echo u13\n endfor\n%}{{ u14, u15 | join: u16 }}",
    "{% translate a: u1, count: u2 %}S{{ a }}{% plural %}P{% endtranslate %}{{ 'm' | t: u3, plural: 'ms', count: u4, who: u5 }}{{ u6 | gettext }}{{ 'c' | ngettext: 'd', u7 }}",
    "{{ u1[u2.k][u3[u4]] }}{{ u5['a b'].c }}{{ (u6..u7) | join: u8 }}{{ u9 | find: (i, j) => j == u10 }}{{ u11 | sort: i => i.k | first }}{{ u12 | slice: u13, u14 }}",
]


def _uniq_missing(k: int):
    import re as _re

    src = UNIQ[k]
    names = set(_re.findall(r"\bu\d+\b", src))
    t = ENV.from_string(src, name=f"uq{k}")
    an = t.analyze()
    an2 = drive(t.analyze_async())
    miss = sorted(n for n in names if n not in an.variables or n not in an.globals)
    return miss, _same(an, an2)


@cond(
    pre=["0 <= k < len(UNIQ)"],
    timeout=120,
    covers="every position of the grammar that can hold a variable (output, path segments and bracketed indexes, filter positional/keyword arguments, lambda bodies, every ternary position incl. tail filters with and without else, boolean operands, loop iterable/limit/offset/range bounds/tablerow cols, if/elsif/unless/case/when operands, assign/capture/echo/cycle/with, render/include arguments and with/for bindings, macro defaults and call arguments, template-string interpolations, liquid-tag lines, array literals, translate arguments) is reported by analyze() and analyze_async(): each position holds a name that occurs nowhere else in the program, so an unvisited position cannot be masked by another use of the same name",
    bounds="10 programs, 138 positions (program index chosen by the solver; analysis has no data dependence)",
    grid=lambda: [(k,) for k in range(len(UNIQ))],
)
def s_every_position(k: int) -> bool:
    k = concrete_int(k, 0, len(UNIQ) - 1)

    def run() -> bool:
        try:
            miss, same = _uniq_missing(k)
        except LiquidError:
            return False
        return not miss and same

    return untraced(run)


UNIQ_FILTERS = (
    "{{ a | upcase }}{{ b if c else d | downcase }}{{ b if c || capitalize }}{{ \"${ e | strip }\" }}{% assign z = f | lstrip %}{% echo g | rstrip %}"
    "{% liquid\n echo h | size\n assign y = i | first\n%}{{ 'x' | append: \"${ j | last }\" }}{% if k %}{{ l | abs }}{% endif %}"
    "{% for m in n %}{{ m | ceil }}{% else %}{{ o | floor }}{% endfor %}{% capture q %}{{ r | round }}{% endcapture %}{% with s: 1 %}{{ s | plus: 1 }}{% endwith %}"
    "{% case t %}{% when 1 %}{{ u | minus: 1 }}{% else %}{{ v | times: 2 }}{% endcase %}{% macro mm %}{{ w | escape }}{% endmacro %}{% call mm %}"
)
UNIQ_FILTER_NAMES = ["upcase", "downcase", "capitalize", "strip", "lstrip", "rstrip", "size", "first", "append", "last", "abs", "ceil", "floor", "round", "plus", "minus", "times", "escape"]


@cond(
    pre=["0 <= k < len(UNIQ_FILTER_NAMES)"],
    timeout=120,
    covers="every position that can apply a filter (output, ternary alternative and tail, template-string interpolation - also inside a filter argument -, assign, echo, liquid-tag lines, if/for/else/capture/with/case/macro bodies) reports its filter in analyze().filters and analyze_async().filters: each position uses a filter that occurs nowhere else (the left-hand side of a ternary is the recorded finding and is not part of this program)",
    bounds="one program, 18 filter positions (the filter asked for is chosen by the solver)",
    grid=lambda: [(k,) for k in range(len(UNIQ_FILTER_NAMES))],
)
def s_every_filter_position(k: int) -> bool:
    k = concrete_int(k, 0, len(UNIQ_FILTER_NAMES) - 1)

    def run() -> bool:
        t = ENV.from_string(UNIQ_FILTERS, name="uqf")
        try:
            an, an2 = t.analyze(), drive(t.analyze_async())
        except LiquidError:
            return False
        return UNIQ_FILTER_NAMES[k] in an.filters and UNIQ_FILTER_NAMES[k] in an2.filters

    return untraced(run)
