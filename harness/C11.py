"""C11 - static analysis over-approximates runtime usage and reports exact locations."""

from __future__ import annotations

from io import StringIO
from typing import List

from vf.cond import cond

from .common import DictLoader, LiquidError, concrete_int, drive

from liquid2 import RenderContext  # noqa: E402
from liquid2.ast import BlockNode, ConditionalBlockNode, Node  # noqa: E402
from liquid2.builtin.tags.case_tag import MultiExpressionBlockNode  # noqa: E402
from liquid2.shopify import Environment as ShopifyEnvironment  # noqa: E402
from liquid2.token import is_lines_token, is_tag_token  # noqa: E402

from .C12 import CORPUS as C12_CORPUS  # noqa: E402

EXPLANATION = (
    "Runtime usage is recorded by an instrumented RenderContext (variable roots resolved, filters looked up), an "
    "instrumented globals mapping (names that reach the global namespace) and a node-render trace; data are solver "
    "variables, so every feasible branch of each corpus program is executed; on every path the recorded sets must be "
    "subsets of what analyze() reports. Span exactness is decided per template (it does not depend on data)."
)
OUTSIDE = [
    "programs outside the corpus (C12's templates + the partial/comment layouts listed in EXTRA)",
    "span exactness for arbitrary source text rests on the lexer invariant of C17 (inductive step) - here it is checked on the corpus layouts, which put every comment kind in front of every reported construct",
]

PARTS = {
    "p": "[{{ v }}{{ i }}{{ pg | upcase }}]",
    "base": "B{% block b %}p{{ bg }}{% endblock %}{% block c required %}{% endblock %}E",
    "q": "{% assign qa = qg | plus: 1 %}{{ qa }}{% for j in ql %}{{ j }}{% endfor %}{% render 'p', v: qa %}",
    "r": "{% if rx %}{% include 'q' %}{% else %}{{ ry | downcase }}{% endif %}",
    "rec": "{{ depth }}{% if depth > 1 %}{% assign d2 = depth | minus: 1 %}{% include 'rec', depth: d2 %}{% endif %}",
}
ENV = ShopifyEnvironment(loader=DictLoader(dict(PARTS)))

EXTRA = [
    "{# c #}{{ x }}{% # c %}{{ s | upcase }}{% comment %}c{% endcomment %}{% assign z = a | first %}{{ z }}",
    "{% include 'q' %}{{ qa }}{% render 'q' %}{{ qa }}{% include 'r' %}",
    "{% if x %}{% render 'r', rx: b %}{% else %}{% include 'r' %}{% endif %}{{ now | date: '%Y' }}",
    "{{ z }}{% assign z = 1 %}{{ z }}{% increment n %}{{ n }}{% capture c %}{{ x }}{% endcapture %}{{ c | size }}",
    "{% for i in a %}{{ forloop.index }}{{ i }}{% for j in a %}{{ forloop.parentloop.index }}{% endfor %}{% endfor %}{{ i }}{{ forloop }}",
    "{{ a | map: i => i.k | join: ',' }}{{ a | where: (it, idx) => idx == x | size }}{{ i }}{{ it }}",
    "{## c ##}\n  {%- liquid\n  # c\n  assign w = x | plus: 1\n  echo w | minus: 1\n  if w\n    echo s | append: 'y'\n  endif\n-%}{{ w }}",
    "{% macro m, u, w: x %}{{ u }}{{ w }}{{ g1 }}{% endmacro %}{% call m, s, w: b %}{% with k: x %}{{ k }}{{ g2 }}{% endwith %}{{ k }}{{ u }}",
    "{% include 'p', v: x %}{% include 'p', v: s %}{{ v }}|{% include 'p' with x as i %}{% include 'p' with s as i %}{{ i }}{{ pg }}",
    "{% for v in a %}{{ v }}{% endfor %}{{ v }}{% with pg: 1 %}{{ pg }}{% endwith %}{{ pg }}{% render 'p', v: x %}{% render 'p', v: s %}{{ v }}{{ i }}{{ a | map: q => q | first }}{{ q }}",
    "{% if b %}{% include 'rec', depth: x %}{% endif %}{{ depth }}",
]
# The filters of a ternary's left-hand side are a recorded finding (known_findings.json): they get a program of their own
KF_TERNARY = "{{ x | plus: 1 if b else s | upcase }}"
# A partial is analysed once (the first time it is reached): recorded finding, own program
KF_PARTIAL_ONCE = "{% include 'p', v: x %}{% include 'p' %}"
# the two recorded findings keep fixed indexes (known_findings.json names their shards), whatever is appended to the corpora
KF_TERNARY_INDEX = 0
KF_PARTIAL_ONCE_INDEX = 1
CORPUS = [KF_TERNARY, KF_PARTIAL_ONCE] + [
    c.replace("{{ x | plus: 1 if x > 1 else 0", "{{ x if x > 1 else 0").replace("{% include 'p' for a %}", "{% include 'p' for a as v %}")
    for c in C12_CORPUS
] + EXTRA
TEMPLATES = [ENV.from_string(s, name=f"t{i}") for i, s in enumerate(CORPUS)]
SOURCES = {f"t{i}": s for i, s in enumerate(CORPUS)}
SOURCES.update(PARTS)

_SKIP = (BlockNode, ConditionalBlockNode, MultiExpressionBlockNode)
TRACE: list = []
_orig_render = Node.render
_orig_render_async = Node.render_async


def _traced_render(self, context, buffer):  # type: ignore[no-untyped-def]
    if not isinstance(self, _SKIP) and (is_tag_token(self.token) or is_lines_token(self.token)):
        TRACE.append(self.token.name)
    return _orig_render(self, context, buffer)


async def _traced_render_async(self, context, buffer):  # type: ignore[no-untyped-def]
    if not isinstance(self, _SKIP) and (is_tag_token(self.token) or is_lines_token(self.token)):
        TRACE.append(self.token.name)
    return await _orig_render_async(self, context, buffer)


Node.render = _traced_render  # type: ignore[method-assign]
Node.render_async = _traced_render_async  # type: ignore[method-assign]


class LogCtx(RenderContext):
    __slots__ = ()
    USED_VARS: list = []
    USED_FILTERS: list = []

    def get(self, path, *, token, default=None, **kw):  # type: ignore[no-untyped-def]
        LogCtx.USED_VARS.append(str(path[0]))
        return RenderContext.get(self, path, token=token) if default is None else RenderContext.get(self, path, token=token, default=default)

    async def get_async(self, path, *, token, default=None, **kw):  # type: ignore[no-untyped-def]
        LogCtx.USED_VARS.append(str(path[0]))
        return await RenderContext.get_async(self, path, token=token)

    def filter(self, name, *, token):  # type: ignore[no-untyped-def]
        LogCtx.USED_FILTERS.append(name)
        return RenderContext.filter(self, name, token=token)


class LogGlobals(dict):
    SEEN: list = []

    def __getitem__(self, key):  # type: ignore[no-untyped-def]
        LogGlobals.SEEN.append(key)
        return dict.__getitem__(self, key)


ANALYSES = []
ANALYSES_ASYNC_EQUAL = []
SPAN_ERRORS = []


def _same(a, b) -> bool:
    def norm(m):  # type: ignore[no-untyped-def]
        return {k: sorted((str(v), v.span.template_name, v.span.start, v.span.end) for v in vs) for k, vs in m.items()}

    def norms(m):  # type: ignore[no-untyped-def]
        return {k: sorted((s.template_name, s.start, s.end) for s in vs) for k, vs in m.items()}

    return (
        norm(a.variables) == norm(b.variables) and norm(a.globals) == norm(b.globals) and norm(a.locals) == norm(b.locals)
        and norms(a.filters) == norms(b.filters) and norms(a.tags) == norms(b.tags)
    )


def _check_spans(an) -> str | None:
    for name, vs in an.variables.items():
        for v in vs:
            src = SOURCES.get(v.span.template_name)
            if src is None:
                return f"unknown template {v.span.template_name!r}"
            text = src[v.span.start : v.span.end]
            try:
                back = ENV.from_string("{{ " + text + " }}").analyze().variables
            except LiquidError:
                return f"span of variable {v} is {text!r}"
            got = [str(x) for xs in back.values() for x in xs]
            if str(v) not in got or text != text.strip() or len(back) < 1:
                return f"span of variable {v} is {text!r}"
            if [str(x) for x in back.get(name, [])][:1] != [str(v)]:
                return f"span of variable {v} is {text!r}"
    for name, spans in an.filters.items():
        for s in spans:
            text = SOURCES[s.template_name][s.start : s.end]
            if text != name:
                return f"span of filter {name} is {text!r}"
    for name, spans in an.tags.items():
        for s in spans:
            text = SOURCES[s.template_name][s.start : s.end]
            ok = (text.startswith("{%") and text.endswith("%}") and text[2:].lstrip("-+~ \n\t").startswith(name)) or text.startswith(name)
            if not ok:
                return f"span of tag {name} is {text!r}"
    return None


for _t in TEMPLATES:
    _an, _eq, _se = None, False, None
    try:
        _an = _t.analyze()
        _eq = _same(_an, drive(_t.analyze_async()))
        _se = _check_spans(_an)
    except Exception as _e:  # noqa: BLE001
        _se = f"{type(_e).__name__}: {_e}"
    ANALYSES.append(_an)
    ANALYSES_ASYNC_EQUAL.append(_eq)
    SPAN_ERRORS.append(_se)


@cond(
    pre=["0 <= x <= 4", "len(a) <= 2", "all(0 <= i <= 3 for i in a)", "len(s) <= 1", "all(c in 'ab' for c in s)"],
    timeout=240,
    shard={"i": list(range(len(CORPUS)))},
    covers="on every path through each program (and the partials/parents it loads): variables resolved, filters applied and tags rendered are subsets of analyze().variables/.filters/.tags; every name that reaches the global namespace and is never bound by the template is in analyze().globals; analyze_async() returns the same maps; every reported span is exactly the variable path / filter name / tag",
    bounds=str(len(CORPUS)) + " programs (C12 corpus + partial/inheritance/comment/liquid/macro/lambda layouts), sync and async render; x int 0..4, b bool, s str over {a b} len <= 1, a list len <= 2 of ints",
    stubs=("Node.render/render_async wrapped to log rendered tag names; RenderContext subclass logging get()/filter(); dict subclass logging global lookups",),
    grid=lambda: [(i, x, b, a, s, m) for i in range(len(CORPUS)) for x in (0, 1, 3) for b in (False, True) for a in ([], [2, 1]) for s in ("", "a") for m in (False, True)],
)
def d_sound(i: int, x: int, b: bool, a: List[int], s: str, is_async: bool) -> bool:
    an = ANALYSES[i]
    if an is None or not ANALYSES_ASYNC_EQUAL[i] or SPAN_ERRORS[i] is not None:
        return False
    t = TEMPLATES[i]
    data = LogGlobals({"x": x, "b": b, "a": a, "s": s, "k": "k", "o": {"k": {"z": x}, "a b": s}, "h": [{"k": x}, {}], "rx": b, "ql": a, "qg": x,
                       "v": "gv", "i": "gi", "pg": "gpg", "q": "gq", "depth": 0, "u": "gu", "g1": 1, "g2": 2, "w": "gw"})
    LogGlobals.SEEN.clear()
    LogCtx.USED_VARS.clear()
    LogCtx.USED_FILTERS.clear()
    TRACE.clear()
    ctx = LogCtx(t, global_data=t.make_globals(data))
    try:
        if is_async:
            drive(t.render_with_context_async(ctx, StringIO()))
        else:
            t.render_with_context(ctx, StringIO())
    except LiquidError:
        pass
    if not set(LogCtx.USED_VARS) <= set(an.variables):
        return False
    if not set(LogCtx.USED_FILTERS) <= set(an.filters):
        return False
    if not set(TRACE) <= set(an.tags):
        return False
    # a lookup that reached the global namespace fell through every local and block scope: it is a global use,
    # whatever the same name is bound to elsewhere in the template
    bound = set(an.locals)
    for name in set(LogGlobals.SEEN):
        if name in ("translations",):
            continue
        if name not in an.globals and name not in bound:
            return False
    return True


@cond(pre=["0 <= x <= 4"], twin=True, timeout=60, covers="reachability twin: the instrumentation records lookups")
def twin_sound(x: int) -> bool:
    LogCtx.USED_VARS.clear()
    t = TEMPLATES[1]
    ctx = LogCtx(t, global_data={"x": x})
    t.render_with_context(ctx, StringIO())
    return not LogCtx.USED_VARS
