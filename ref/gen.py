"""Deterministic program generator for the reference differential (never imports liquid2).

Programs come from the abstract grammar of DESIGN.md appendix A, restricted to what the
documentation defines.  `program(i)` is a pure function of i (a PRNG seeded with i drives the
choices), so the program set is a stated, reproducible, finite bound - the solver then covers all
data for each program.
"""

from __future__ import annotations

import random

INT_VARS = ["x", "n"]
PRINT_LITS = [("lit", 0), ("lit", 1), ("lit", 2), ("lit", "a"), ("lit", "B"), ("lit", ""), ("lit", True), ("lit", False), ("lit", None)]
MARKS = ["", "", "", "-", "~", "+"]
TEXTS = ["A", "B", " C ", "\n", " ", "d\n", "\tE", ""]


class G:
    def __init__(self, seed: int):
        self.r = random.Random(seed * 7919 + 13)
        self.loop_depth = 0
        self.locals = ["v", "w"]

    def pick(self, xs):
        return xs[self.r.randrange(len(xs))]

    # ---- primitives (no filters: the only form allowed in conditions, ranges, tag arguments) ----
    def int_prim(self):
        k = self.r.randrange(5)
        if k == 0:
            return ("lit", self.r.randrange(0, 4))
        if k == 1:
            return ("var", "x", [])
        if k == 2:
            return ("var", "n", [])
        if k == 3:
            return ("var", "a", [self.r.randrange(0, 2)])
        return ("var", "a", ["size"])

    def str_prim(self):
        return self.pick([("lit", "a"), ("lit", "B"), ("lit", ""), ("lit", "a b"), ("var", "s", []), ("var", "s", [])])

    def prim(self):
        k = self.r.randrange(10)
        if k < 3:
            return self.int_prim()
        if k < 5:
            return self.str_prim()
        return self.pick([("var", "b", []), ("var", "u", []), ("var", "a", []), ("var", self.pick(self.locals), []), self.pick(PRINT_LITS), ("var", "a", [self.pick(["first", "last", "size"])]), ("var", "c", [])])

    # ---- filtered expressions (output / assign / echo only) ----
    def int_expr(self):
        k = self.r.randrange(6)
        if k < 4:
            return self.int_prim()
        if k == 4:
            return ("filter", ("var", "a", []), "size", [])
        return ("filter", self.int_prim(), self.pick(["plus", "minus", "times"]), [self.int_prim()])

    def str_expr(self):
        k = self.r.randrange(5)
        if k == 0:
            return ("lit", self.pick(["a", "B", "", "a b"]))
        if k == 1:
            return ("var", "s", [])
        if k == 2:
            return ("filter", ("var", "s", []), self.pick(["upcase", "downcase"]), [])
        if k == 3:
            return ("filter", ("var", "s", []), self.pick(["append", "prepend"]), [("lit", self.pick(["a", "-"]))])
        return ("filter", ("var", "a", []), "join", [("lit", ",")])

    def any_prim(self):
        k = self.r.randrange(12)
        if k < 3:
            return self.int_expr()
        if k < 5:
            return self.str_expr()
        if k == 5:
            return ("var", "b", [])
        if k == 6:
            return ("var", "u", [])
        if k == 7:
            return ("var", "a", [])
        if k == 8:
            return ("var", self.pick(self.locals), [])
        if k == 9:
            return self.pick(PRINT_LITS)
        if k == 10:
            return ("var", "a", [self.pick(["first", "last", "size"])])
        return ("var", "c", [])  # a counter name

    def out_expr(self):
        k = self.r.randrange(10)
        if k < 4:
            return self.any_prim()
        if k == 4:
            return ("filter", self.prim(), "default", [self.pick([("lit", "d"), ("var", "n", []), ("lit", 0)])])
        if k == 5:
            return ("filter", self.pick([("var", "a", []), ("var", "u", []), ("var", "s", [])]), self.pick(["size", "first", "last"]), [])
        if k == 6:
            return ("ternary", self.prim(), self.cond(1), self.pick([None, self.prim()]))
        if k == 7:
            return ("range", ("lit", 1), self.int_prim())
        if k == 8:
            return ("filter", ("filter", self.int_prim(), self.pick(["plus", "times"]), [self.int_prim()]), "minus", [self.int_prim()])
        return self.str_expr()

    # ---- conditions ----
    def cmp(self):
        k = self.r.randrange(8)
        if k < 3:
            return ("cmp", self.pick(["==", "!=", "<", ">", "<=", ">="]), self.int_prim(), self.int_prim())
        if k == 3:
            return ("cmp", self.pick(["==", "!=", "<", ">="]), self.str_prim(), self.str_prim())
        if k == 4:
            return ("cmp", self.pick(["==", "!="]), self.prim(), self.pick([("lit", None), ("lit", True), ("lit", 1), ("empty",), ("blank",), ("var", "u", [])]))
        if k == 5:
            return ("cmp", "contains", self.pick([("var", "a", []), ("var", "s", []), ("var", "u", [])]), self.pick([("lit", 1), ("lit", "a"), ("var", "n", [])]))
        if k == 6:
            return ("cmp", self.pick(["<", ">"]), self.prim(), self.int_prim())  # may be a type error: both sides must agree
        return ("cmp", "==", self.prim(), self.prim())

    def cond(self, depth: int):
        k = self.r.randrange(8)
        if depth <= 0 or k < 2:
            return self.pick([("truthy", self.prim()), self.cmp()])
        if k < 4:
            return (self.pick(["and", "or"]), self.cond(depth - 1), self.cond(depth - 1))
        if k == 4:
            return ("group", (self.pick(["and", "or"]), self.cond(depth - 1), self.cond(depth - 1)))
        if k == 5:
            return ("and", ("group", ("or", self.cond(0), self.cond(0))), self.cond(0))
        if k == 6:
            return ("or", self.cond(0), ("and", self.cond(0), self.cond(0)))
        return ("group", ("not", ("group", self.cond(depth - 1))))

    # ---- statements ----
    def text(self):
        return ("text", self.pick(TEXTS))

    def marks(self):
        return (self.pick(MARKS), self.pick(MARKS))

    def stmt(self, depth: int):  # noqa: PLR0911, PLR0912
        k = self.r.randrange(20 if depth > 0 else 11)
        if k < 3:
            return ("out", self.out_expr(), self.marks())
        if k == 3:
            return self.text()
        if k == 4:
            return ("assign", self.pick(self.locals), self.out_expr())
        if k == 5:
            return ("echo", self.out_expr())
        if k == 6:
            return self.pick([("incr", "c"), ("decr", "c"), ("incr", "v")])
        if k == 7:
            return ("cycle", self.pick([None, "g"]), [self.pick(PRINT_LITS[:5]), ("var", "n", []), ("lit", "z")][: self.r.randrange(2, 4)])
        if k == 8:
            return self.pick([("raw", "{{ r }}"), ("comment", "#", "c"), ("comment", "inline", "c"), ("comment", "block", "c {{ x }}")])
        if k == 9:
            if self.loop_depth > 0:
                return ("if", self.cond(0), [self.pick([("break",), ("continue",)])], [], None, None)
            return self.text()
        if k == 10:
            return ("liquid", [("assign", self.pick(self.locals), self.int_expr()), ("echo", self.out_expr()), ("if", self.cond(0), [("echo", self.prim())])][: self.r.randrange(1, 4)])
        if k < 14:
            elifs = [(self.cond(0), self.block(depth - 1))] if self.r.randrange(3) == 0 else []
            els = self.block(depth - 1) if self.r.randrange(2) else None
            return ("if", self.cond(1), self.block(depth - 1), elifs, els, self.marks())
        if k == 14:
            return ("unless", self.cond(1), self.block(depth - 1), self.block(depth - 1) if self.r.randrange(2) else None)
        if k == 15:
            whens = [([self.pick([("lit", 0), ("lit", 1), ("var", "n", []), ("lit", "a")]) for _ in range(self.r.randrange(1, 3))], self.block(depth - 1, allow_empty=True)) for _ in range(self.r.randrange(1, 3))]
            return ("case", self.pick([("var", "x", []), ("var", "n", []), ("var", "s", []), ("var", "u", [])]), whens, self.block(depth - 1) if self.r.randrange(2) else None)
        if k < 18:
            it = self.pick([("var", "a", []), ("range", ("lit", 1), self.int_prim()), ("var", "u", []), ("var", "a", [])])
            limit = self.pick([None, None, ("lit", 1), ("var", "n", []), ("var", "x", [])])
            offset = self.pick([None, None, ("lit", 1), "continue", ("var", "x", [])])
            self.loop_depth += 1
            body = self.block(depth - 1, loop_var=True)
            self.loop_depth -= 1
            return ("for", "i", it, limit, offset, bool(self.r.randrange(4) == 0), body, self.block(depth - 1) if self.r.randrange(3) == 0 else None, self.marks())
        if k == 18:
            return ("capture", self.pick(self.locals), [("text", "["), ("out", self.out_expr(), None), ("text", "]")])
        return ("with", self.pick(self.locals), self.prim(), self.block(depth - 1))

    def block(self, depth: int, *, loop_var: bool = False, allow_empty: bool = False):
        n = self.r.randrange(0 if allow_empty else 1, 4)
        body = [self.stmt(max(depth, 0)) for _ in range(n)]
        if loop_var and self.r.randrange(2):
            body.insert(0, ("out", self.pick([("var", "i", []), ("var", "forloop", [self.pick(["index", "index0", "rindex", "rindex0", "first", "last", "length"])]), ("var", "forloop", ["parentloop", "index"])]), None))
        return body


def program(i: int):
    g = G(i)
    return [g.stmt(2) for _ in range(g.r.randrange(2, 5))]
