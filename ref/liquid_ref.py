"""A small reference interpreter of the documented Liquid core language.

Written from docs/*.md of python-liquid2 (tag_reference, filter_reference, whitespace_control,
variables_and_drops).  It never imports liquid2.  Programs are nested tuples (see `show`), values
are int / bool / None / str / list / range / UNDEF.

Only behaviour the documentation defines is implemented; the program generator avoids the rest.
"""

from __future__ import annotations

from typing import Any


class RefError(Exception):
    """The engine is expected to raise a LiquidError (kind = short description)."""


class _Undef:
    def __repr__(self) -> str:
        return "UNDEF"


UNDEF = _Undef()


class _Break(Exception):
    pass


class _Continue(Exception):
    pass


# ------------------------------------------------------------------------------------------------
# printing programs as Liquid source
# ------------------------------------------------------------------------------------------------
def lit(v: Any) -> str:
    if v is None:
        return "nil"
    if v is True:
        return "true"
    if v is False:
        return "false"
    if isinstance(v, int):
        return str(v)
    assert isinstance(v, str)
    return "'" + v.replace("\\", "\\\\").replace("'", "\\'") + "'"


def show_expr(e) -> str:  # noqa: PLR0911, PLR0912
    k = e[0]
    if k == "lit":
        return lit(e[1])
    if k == "empty":
        return "empty"
    if k == "blank":
        return "blank"
    if k == "var":
        s = e[1]
        for seg in e[2]:
            if isinstance(seg, int):
                s += f"[{seg}]"
            elif isinstance(seg, tuple):
                s += "[" + show_expr(seg) + "]"
            else:
                s += "." + seg
        return s
    if k == "range":
        return "(" + show_expr(e[1]) + ".." + show_expr(e[2]) + ")"
    if k == "filter":
        args = ", ".join(show_expr(a) for a in e[3])
        return show_expr(e[1]) + " | " + e[2] + (": " + args if args else "")
    if k == "ternary":
        s = show_expr(e[1]) + " if " + show_cond(e[2])
        if e[3] is not None:
            s += " else " + show_expr(e[3])
        return s
    raise AssertionError(k)


def show_cond(c, top: bool = True) -> str:
    k = c[0]
    if k == "truthy":
        return show_expr(c[1])
    if k == "cmp":
        return show_expr(c[2]) + " " + c[1] + " " + show_expr(c[3])
    if k in ("and", "or"):
        s = show_cond(c[1], False) + " " + k + " " + show_cond(c[2], False)
        return s
    if k == "group":
        return "(" + show_cond(c[1]) + ")"
    if k == "not":
        return "not " + show_cond(c[1], False)
    raise AssertionError(k)


def _wc(m) -> tuple[str, str]:
    return (m[0] if m else "", m[1] if m else "")


def show(prog, m=None) -> str:  # noqa: PLR0912, PLR0915
    """Liquid source of a program (a list of statements)."""
    out = []
    for st in prog:
        k = st[0]
        if k == "text":
            out.append(st[1])
        elif k == "out":
            l, r = _wc(st[2] if len(st) > 2 else None)
            out.append("{{" + l + " " + show_expr(st[1]) + " " + r + "}}")
        elif k == "echo":
            out.append("{% echo " + show_expr(st[1]) + " %}")
        elif k == "assign":
            out.append("{% assign " + st[1] + " = " + show_expr(st[2]) + " %}")
        elif k == "capture":
            out.append("{% capture " + st[1] + " %}" + show(st[2]) + "{% endcapture %}")
        elif k == "if":
            l, r = _wc(st[5] if len(st) > 5 else None)
            s = "{%" + l + " if " + show_cond(st[1]) + " " + r + "%}" + show(st[2])
            for c, b in st[3]:
                s += "{%" + l + " elsif " + show_cond(c) + " " + r + "%}" + show(b)
            if st[4] is not None:
                s += "{%" + l + " else " + r + "%}" + show(st[4])
            out.append(s + "{%" + l + " endif " + r + "%}")
        elif k == "unless":
            s = "{% unless " + show_cond(st[1]) + " %}" + show(st[2])
            if st[3] is not None:
                s += "{% else %}" + show(st[3])
            out.append(s + "{% endunless %}")
        elif k == "case":
            s = "{% case " + show_expr(st[1]) + " %}"
            for vals, b in st[2]:
                s += "{% when " + ", ".join(show_expr(v) for v in vals) + " %}" + show(b)
            if st[3] is not None:
                s += "{% else %}" + show(st[3])
            out.append(s + "{% endcase %}")
        elif k == "for":
            _, var, it, limit, offset, rev, body, els = st[:8]
            l, r = _wc(st[8] if len(st) > 8 else None)
            s = "{%" + l + " for " + var + " in " + show_expr(it)
            if limit is not None:
                s += " limit: " + show_expr(limit)
            if offset is not None:
                s += " offset: " + ("continue" if offset == "continue" else show_expr(offset))
            if rev:
                s += " reversed"
            s += " " + r + "%}" + show(body)
            if els is not None:
                s += "{%" + l + " else " + r + "%}" + show(els)
            out.append(s + "{%" + l + " endfor " + r + "%}")
        elif k == "break":
            out.append("{% break %}")
        elif k == "continue":
            out.append("{% continue %}")
        elif k == "incr":
            out.append("{% increment " + st[1] + " %}")
        elif k == "decr":
            out.append("{% decrement " + st[1] + " %}")
        elif k == "cycle":
            g = (st[1] + ": ") if st[1] else ""
            out.append("{% cycle " + g + ", ".join(show_expr(x) for x in st[2]) + " %}")
        elif k == "raw":
            out.append("{% raw %}" + st[1] + "{% endraw %}")
        elif k == "comment":
            out.append({"#": "{# " + st[2] + " #}", "inline": "{% # " + st[2] + " %}", "block": "{% comment %}" + st[2] + "{% endcomment %}"}[st[1]])
        elif k == "with":
            out.append("{% with " + st[1] + ": " + show_expr(st[2]) + " %}" + show(st[3]) + "{% endwith %}")
        elif k == "liquid":
            lines = []
            for ls in st[1]:
                if ls[0] == "assign":
                    lines.append("assign " + ls[1] + " = " + show_expr(ls[2]))
                elif ls[0] == "echo":
                    lines.append("echo " + show_expr(ls[1]))
                elif ls[0] == "incr":
                    lines.append("increment " + ls[1])
                elif ls[0] == "if":
                    lines.append("if " + show_cond(ls[1]))
                    for inner in ls[2]:
                        lines.append("echo " + show_expr(inner[1]))
                    lines.append("endif")
                else:
                    raise AssertionError(ls)
            out.append("{% liquid\n" + "\n".join("  " + x for x in lines) + "\n%}")
        else:
            raise AssertionError(k)
    return "".join(out)


# ------------------------------------------------------------------------------------------------
# values
# ------------------------------------------------------------------------------------------------
def to_s(v: Any) -> str:
    if v is UNDEF or v is None:
        return ""
    if v is True:
        return "true"
    if v is False:
        return "false"
    if isinstance(v, str):
        return v
    if isinstance(v, range):
        return f"{v.start}..{v.stop - 1}"
    if isinstance(v, list):
        return "".join(to_s(i) for i in v)
    return str(v)


def truthy(v: Any) -> bool:
    return not (v is False or v is None or v is UNDEF)


def _nil(v: Any) -> Any:
    return None if v is UNDEF else v


def eq(a: Any, b: Any) -> bool:
    a, b = _nil(a), _nil(b)
    for x, y in ((a, b), (b, a)):
        if x == ("empty",):
            return y == ("empty",) or (isinstance(y, (str, list, dict)) and len(y) == 0)
        if x == ("blank",):
            if y == ("blank",):
                return True
            if isinstance(y, str):
                return y == "" or y.isspace()
            return isinstance(y, (list, dict)) and len(y) == 0
    if isinstance(a, bool) or isinstance(b, bool):
        return isinstance(a, bool) and isinstance(b, bool) and a == b
    if isinstance(a, range) or isinstance(b, range):
        return isinstance(a, range) and isinstance(b, range) and a == b
    if type(a) is not type(b):
        return False
    return a == b


def lt(a: Any, b: Any) -> bool:
    a, b = _nil(a), _nil(b)
    if isinstance(a, str) and isinstance(b, str):
        return a < b
    if isinstance(a, bool) or isinstance(b, bool):
        return False
    if isinstance(a, int) and isinstance(b, int):
        return a < b
    raise RefError("'<' between incompatible types")


def contains(left: Any, right: Any) -> bool:
    if isinstance(left, str):
        return to_s(right) in left
    if left is UNDEF:
        return False
    if isinstance(left, (list, range)):
        return any(eq(i, right) for i in left)
    raise RefError("contains on a non-collection")


# ------------------------------------------------------------------------------------------------
# evaluation
# ------------------------------------------------------------------------------------------------
WS_DEFAULT, WS_MINUS, WS_TILDE, WS_PLUS = "", "-", "~", "+"


class Ref:
    def __init__(self, data: dict, *, default_trim: str = "+", suppress_blank: bool = True):
        self.globals = dict(data)
        self.locals: dict = {}
        self.scopes: list[dict] = []
        self.counters: dict = {}
        self.cycles: dict = {}
        self.stopindex: dict = {}
        self.loops: list[dict] = []
        self.default_trim = default_trim
        self.suppress_blank = suppress_blank

    # ---- names ----
    def lookup(self, name: str) -> Any:
        for sc in reversed(self.scopes):
            if name in sc:
                return sc[name]
        if name in self.locals:
            return self.locals[name]
        if name in self.globals:
            return self.globals[name]
        if name in self.counters:
            return self.counters[name]
        return UNDEF

    def get(self, name: str, segs) -> Any:
        v = self.lookup(name)
        for seg in segs:
            if isinstance(seg, tuple):
                seg = self.expr(seg)
            v = self.item(v, seg)
        return v

    def item(self, v: Any, key: Any) -> Any:  # noqa: PLR0911
        if v is UNDEF:
            return UNDEF
        if isinstance(v, dict):
            if key in v and not isinstance(key, bool):
                return v[key]
            if key == "size":
                return len(v)
            return UNDEF
        if isinstance(v, (list, str, range)):
            if key == "size":
                return len(v)
            if isinstance(v, str):
                return UNDEF if not (isinstance(key, int) and not isinstance(key, bool) and -len(v) <= key < len(v)) else v[key]
            if key == "first":
                return v[0] if len(v) else UNDEF
            if key == "last":
                return v[-1] if len(v) else UNDEF
            if isinstance(key, int) and not isinstance(key, bool) and -len(v) <= key < len(v):
                return v[key]
            return UNDEF
        return UNDEF

    # ---- expressions ----
    def expr(self, e) -> Any:  # noqa: PLR0911
        k = e[0]
        if k == "lit":
            return e[1]
        if k in ("empty", "blank"):
            return (k,)
        if k == "var":
            return self.get(e[1], e[2])
        if k == "range":
            a, b = self.to_int0(self.expr(e[1])), self.to_int0(self.expr(e[2]))
            return range(0) if a > b else range(a, b + 1)
        if k == "filter":
            return self.apply(e[2], self.expr(e[1]), [self.expr(a) for a in e[3]])
        if k == "ternary":
            if self.cond(e[2]):
                return self.expr(e[1])
            return None if e[3] is None else self.expr(e[3])
        raise AssertionError(k)

    @staticmethod
    def to_int0(v: Any) -> int:
        if isinstance(v, bool):
            return int(v)
        if isinstance(v, int):
            return v
        if isinstance(v, str):
            try:
                return int(v)
            except ValueError:
                return 0
        return 0

    def cond(self, c) -> bool:
        k = c[0]
        if k == "truthy":
            v = self.expr(c[1])
            return truthy(v)
        if k == "cmp":
            a, b = self.expr(c[2]), self.expr(c[3])
            op = c[1]
            if op == "==":
                return eq(a, b)
            if op in ("!=", "<>"):
                return not eq(a, b)
            if op == "<":
                return lt(a, b)
            if op == ">":
                return lt(b, a)
            if op == "<=":
                return eq(a, b) or lt(a, b)
            if op == ">=":
                return eq(a, b) or lt(b, a)
            if op == "contains":
                return contains(a, b)
            if op == "in":
                return contains(b, a)
            raise AssertionError(op)
        if k == "and":
            return self.cond(c[1]) and self.cond(c[2])
        if k == "or":
            return self.cond(c[1]) or self.cond(c[2])
        if k == "group":
            return self.cond(c[1])
        if k == "not":
            return not self.cond(c[1])
        raise AssertionError(k)

    def num(self, v: Any) -> int:
        if v is UNDEF or v is None:
            return 0
        if isinstance(v, bool):
            raise RefError("bool in arithmetic is outside the reference")
        if isinstance(v, int):
            return v
        if isinstance(v, str):
            try:
                return int(v)
            except ValueError:
                return 0
        raise RefError("non-numeric operand")

    def apply(self, name: str, v: Any, args: list) -> Any:  # noqa: PLR0911, PLR0912
        if name == "default":
            d = args[0] if args else ""
            if v is UNDEF or v is None or v is False or (isinstance(v, (str, list, dict)) and len(v) == 0):
                return d
            return v
        if name == "size":
            return len(v) if isinstance(v, (str, list, dict, range)) else 0
        if name in ("first", "last"):
            if isinstance(v, (list, range)) and len(v):
                return v[0] if name == "first" else v[-1]
            return None
        if name == "join":
            sep = to_s(args[0]) if args else " "
            if v is UNDEF:
                seq: list = []
            elif isinstance(v, str):
                seq = list(v)
            elif isinstance(v, (list, range)):
                seq = list(v)
            else:
                seq = [v]
            return sep.join(to_s(i) for i in seq)
        if name in ("plus", "minus", "times"):
            a, b = self.num(v), self.num(args[0])
            return a + b if name == "plus" else a - b if name == "minus" else a * b
        if name == "upcase":
            return to_s(v).upper()
        if name == "downcase":
            return to_s(v).lower()
        if name == "append":
            return to_s(v) + to_s(args[0])
        if name == "prepend":
            return to_s(args[0]) + to_s(v)
        raise AssertionError(name)

    # ---- whitespace ----
    def trim(self, text: str, left: str, right: str) -> str:
        left = left or self.default_trim
        right = right or self.default_trim
        i, j = 0, len(text)
        if left == "-":
            while i < j and text[i].isspace():
                i += 1
        elif left == "~":
            while i < j and text[i] in "\r\n":
                i += 1
        if right == "-":
            while j > i and text[j - 1].isspace():
                j -= 1
        elif right == "~":
            while j > i and text[j - 1] in "\r\n":
                j -= 1
        return text[i:j]

    # ---- blank ----
    def blank(self, prog) -> bool:
        return all(self.st_blank(st) for st in prog)

    def st_blank(self, st) -> bool:  # noqa: PLR0911
        k = st[0]
        if k == "text":
            return st[1] == "" or st[1].isspace()
        if k in ("out", "echo", "incr", "decr", "cycle"):
            return False
        if k == "raw":
            return st[1] == "" or st[1].isspace()
        if k in ("assign", "capture", "comment", "break", "continue"):
            return True
        if k == "if":
            return self.blank(st[2]) and all(self.blank(b) for _, b in st[3]) and (st[4] is None or self.blank(st[4]))
        if k == "unless":
            return self.blank(st[2]) and (st[3] is None or self.blank(st[3]))
        if k == "case":
            return all(self.blank(b) for _, b in st[2]) and (st[3] is None or self.blank(st[3]))
        if k == "for":
            return self.blank(st[6]) and (st[7] is None or self.blank(st[7]))
        if k == "with":
            return self.blank(st[3])
        if k == "liquid":
            return all(ls[0] == "assign" or (ls[0] == "if" and not ls[2]) for ls in st[1])
        raise AssertionError(k)

    # ---- statements ----
    def block(self, prog, out: list, markers) -> None:
        """Render a control-flow block (subject to blank suppression); writes as it goes."""
        if self.suppress_blank and self.blank(prog):
            self.run(prog, [], markers)
        else:
            self.run(prog, out, markers)

    def run(self, prog, out: list, markers=("", "")) -> None:  # noqa: PLR0912, PLR0915
        """markers = (right marker of the markup before this sequence, left marker of the markup after it)."""
        merged: list = []
        for st in prog:  # adjacent text is one piece of template text
            if st[0] == "text" and merged and merged[-1][0] == "text":
                merged[-1] = ("text", merged[-1][1] + st[1])
            elif st[0] == "text" and st[1] == "":
                continue
            else:
                merged.append(st)
        prog = merged
        n = len(prog)
        for idx, st in enumerate(prog):
            k = st[0]
            if k == "text":
                left = self._right_marker(prog[idx - 1]) if idx > 0 else markers[0]
                right = self._left_marker(prog[idx + 1]) if idx + 1 < n else markers[1]
                out.append(self.trim(st[1], left, right))
            elif k in ("out", "echo"):
                out.append(to_s(self.expr(st[1])))
            elif k == "assign":
                self.locals[st[1]] = self.expr(st[2])
            elif k == "capture":
                buf: list = []
                self.run(st[2], buf)
                self.locals[st[1]] = "".join(buf)
            elif k == "if":
                m = st[5] if len(st) > 5 and st[5] else ("", "")
                arms = [(st[1], st[2])] + list(st[3])
                done = False
                for c, b in arms:
                    if self.cond(c):
                        self.block(b, out, (m[1], m[0]))
                        done = True
                        break
                if not done and st[4] is not None:
                    self.block(st[4], out, (m[1], m[0]))
            elif k == "unless":
                if not self.cond(st[1]):
                    self.block(st[2], out, ("", ""))
                elif st[3] is not None:
                    self.block(st[3], out, ("", ""))
            elif k == "case":
                subject = self.expr(st[1])
                matched = False
                for vals, b in st[2]:
                    if any(eq(subject, self.expr(v)) for v in vals):
                        matched = True
                        self.block(b, out, ("", ""))
                if not matched and st[3] is not None:
                    self.block(st[3], out, ("", ""))
            elif k == "for":
                self.for_(st, out)
            elif k == "break":
                raise _Break
            elif k == "continue":
                raise _Continue
            elif k == "incr":
                v = self.counters.get(st[1], 0)
                self.counters[st[1]] = v + 1
                out.append(str(v))
            elif k == "decr":
                v = self.counters.get(st[1], 0) - 1
                self.counters[st[1]] = v
                out.append(str(v))
            elif k == "cycle":
                key = (st[1], tuple(repr(x) for x in st[2]))
                i = self.cycles.get(key, 0)
                self.cycles[key] = i + 1
                out.append(to_s(self.expr(st[2][i % len(st[2])])))
            elif k == "raw":
                out.append(st[1])
            elif k == "comment":
                pass
            elif k == "with":
                self.scopes.append({st[1]: self.expr(st[2])})
                try:
                    self.block(st[3], out, ("", ""))
                finally:
                    self.scopes.pop()
            elif k == "liquid":
                for ls in st[1]:
                    if ls[0] == "assign":
                        self.locals[ls[1]] = self.expr(ls[2])
                    elif ls[0] == "echo":
                        out.append(to_s(self.expr(ls[1])))
                    elif ls[0] == "incr":
                        v = self.counters.get(ls[1], 0)
                        self.counters[ls[1]] = v + 1
                        out.append(str(v))
                    elif ls[0] == "if":
                        if self.cond(ls[1]):
                            for inner in ls[2]:
                                out.append(to_s(self.expr(inner[1])))
            else:
                raise AssertionError(k)

    @staticmethod
    def _right_marker(st) -> str:
        """Right-hand marker of the markup that ends statement `st`."""
        k = st[0]
        if k == "out" and len(st) > 2 and st[2]:
            return st[2][1]
        if k == "if" and len(st) > 5 and st[5]:
            return st[5][1]
        if k == "for" and len(st) > 8 and st[8]:
            return st[8][1]
        return ""

    @staticmethod
    def _left_marker(st) -> str:
        k = st[0]
        if k == "out" and len(st) > 2 and st[2]:
            return st[2][0]
        if k == "if" and len(st) > 5 and st[5]:
            return st[5][0]
        if k == "for" and len(st) > 8 and st[8]:
            return st[8][0]
        return ""

    def for_(self, st, out: list) -> None:  # noqa: PLR0912
        _, var, it_e, limit_e, offset_e, rev, body, els = st[:8]
        m = st[8] if len(st) > 8 and st[8] else ("", "")
        itv = self.expr(it_e)
        if itv is UNDEF:
            items: list = []
        elif isinstance(itv, (list, range)):
            items = list(itv)
        else:
            raise RefError("for over a non-iterable")
        key = var + "-" + show_expr(it_e)
        length = len(items)
        if limit_e is None and offset_e is None:
            self.stopindex[key] = length
        else:
            offset = 0
            if offset_e == "continue":
                offset = self.stopindex.get(key, 0)
            elif offset_e is not None:
                offset = self.strict_int(self.expr(offset_e))
                offset = min(max(offset, 0), length)
            items = items[offset:]
            if limit_e is not None:
                limit = self.strict_int(self.expr(limit_e))
                items = items[: max(limit, 0)]
            self.stopindex[key] = offset + len(items)
        if rev:
            items = list(reversed(items))
        if not items:
            if els is not None:
                self.block(els, out, (m[1], m[0]))
            return
        n = len(items)
        parent = self.loops[-1] if self.loops else UNDEF
        sink = [] if (self.suppress_blank and self.blank(body)) else out
        for i, item in enumerate(items):
            fl = {"index": i + 1, "index0": i, "rindex": n - i, "rindex0": n - i - 1, "first": i == 0, "last": i == n - 1, "length": n, "parentloop": parent, "name": key}
            self.scopes.append({var: item, "forloop": fl})
            self.loops.append(fl)
            try:
                self.run(body, sink, (m[1], m[0]))
            except _Continue:
                pass  # what the interrupted iteration wrote before `continue` stays written
            except _Break:
                break
            finally:
                self.loops.pop()
                self.scopes.pop()

    @staticmethod
    def strict_int(v: Any) -> int:
        if isinstance(v, bool):
            return int(v)
        if isinstance(v, int):
            return v
        if isinstance(v, str):
            try:
                return int(v)
            except ValueError:
                raise RefError("expected an integer") from None
        if v is UNDEF:
            return 0
        raise RefError("expected an integer")


def render(prog, data: dict, *, default_trim: str = "+", suppress_blank: bool = True, markers=None) -> str:
    r = Ref(data, default_trim=default_trim, suppress_blank=suppress_blank)
    out: list = []
    try:
        r.run(prog, out)
        return "".join(out)
    except (_Break, _Continue):
        raise RefError("break/continue outside a loop") from None
