#!/bin/sh
# Build the verification environment offline: an overlay venv of /venv (which holds
# the repository's own dependencies and the editable install of /repo) plus
# crosshair-tool / z3-solver / cvc5 from the local wheelhouse.  Idempotent.
set -e
cd "$(dirname "$0")"
if [ ! -x .venv/bin/python ] || ! .venv/bin/python -c "import crosshair, z3" 2>/dev/null; then
  rm -rf .venv
  /venv/bin/python -m venv .venv
  SP=$(.venv/bin/python -c "import sysconfig; print(sysconfig.get_paths()['purelib'])")
  printf '%s\n%s\n' "import site; site.addsitedir('/venv/lib/python3.12/site-packages')" "/repo" > "$SP/vf_overlay.pth"
  PIP_NO_INDEX=1 .venv/bin/pip install -q --no-index --find-links /opt/veriftools/wheels crosshair-tool z3-solver cvc5
fi
.venv/bin/python -c "import crosshair, z3, liquid2, markupsafe; print('verif env ok: crosshair', crosshair.__version__, 'z3', z3.get_version_string(), 'liquid2 from', liquid2.__file__)"
