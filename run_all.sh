#!/bin/sh
# Run every property's check in sequence (tier = $1, default quick); prints one summary line per property.
# ORDER="C09 C10 ..." overrides the order / selection.
T=${1:-quick}
cd "$(dirname "$0")"
for p in ${ORDER:-C01 C02 C03 C04 C05 C06 C07 C08 C09 C10 C11 C12 C13 C14 C15 C16 C17 C18 C19 C20}; do
  s=$(date +%s)
  ./check $p --tier $T > /tmp/vf_all_$p.log 2>&1; rc=$?
  echo "$p rc=$rc $(tail -1 /tmp/vf_all_$p.log) [$(( $(date +%s) - s )) s]"
done
