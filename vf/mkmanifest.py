"""Regenerate MANIFEST.json from the harness modules that exist (python -m vf.mkmanifest)."""
from __future__ import annotations

import importlib
import json
import os
import sys

VERIF = os.path.dirname(os.path.dirname(os.path.abspath(__file__)))
sys.path.insert(0, VERIF)
sys.path.insert(0, "/repo")

PROPS = [json.loads(l) for l in open(os.path.join(VERIF, "properties.jsonl"))]

BASELINE_OFF = (
    "cd /repo && env -u JG_RP_PYTHON_LIQUID2_VERIF /venv/bin/python -m pytest -ra -q -p no:cacheprovider "
    "--timeout=900 --continue-on-collection-errors"
)

NOT_YET = "check not built yet in this session (see DESIGN.md section 3 for the planned harness)"


def main() -> None:
    checks = []
    na = []
    for p in PROPS:
        pid = p["id"]
        try:
            mod = importlib.import_module(f"harness.{pid}")
        except ModuleNotFoundError:
            na.append({"property_id": pid, "reason": NOT_YET})
            continue
        na_reason = getattr(mod, "NOT_APPLICABLE", None)
        if na_reason:
            na.append({"property_id": pid, "reason": na_reason})
            continue
        checks.append(
            {
                "property_id": pid,
                "quick_cmd": f"./check {pid} --tier quick",
                "thorough_cmd": f"./check {pid} --tier thorough",
                "evidence_file": f"evidence/{pid}.json",
                "replay_cmd_template": "./check --replay {path}",
                "engine": "crosshair-z3",
                "level_claimed": {
                    "category": "model_checking",
                    "text": getattr(mod, "LEVEL_TEXT", None)
                    or (
                        "Bounded symbolic execution of the real liquid2 functions (CrossHair + z3): each condition is decided "
                        "for every input inside its stated bound (path tree exhausted, postcondition true on every leaf); "
                        "counterexamples are replayed natively before being reported. " + getattr(mod, "EXPLANATION", "")
                    ),
                    "design_ref": f"DESIGN.md section 3 ({pid}, plan) and section 8.3 (what is built)",
                },
                "level_note": getattr(mod, "LEVEL_NOTE", None)
                or (
                    "Trusted: CPython 3.12, CrossHair 0.0.110's models of builtins, z3 5.1.0. Outside the claim: "
                    + "; ".join(getattr(mod, "OUTSIDE", []))
                ),
                "technique": getattr(mod, "TECHNIQUE", "symbolic execution of the real Python code with z3 (CrossHair), bounded; native replay of counterexamples"),
            }
        )
    man = {
        "version": 1,
        "setup_cmd": "./setup.sh",
        "hooks": {
            "guard": "JG_RP_PYTHON_LIQUID2_VERIF",
            "enable": "no source hooks: harnesses subclass public classes and replace class attributes from outside /repo",
            "baseline_off_cmd": BASELINE_OFF,
            "source_commits": [],
            "add_only": True,
        },
        "engines": [
            {
                "name": "crosshair-z3",
                "path": "vf/worker.py",
                "serves_properties": [c["property_id"] for c in checks],
                "kind_free_text": "CrossHair 0.0.110 symbolic execution of /repo/liquid2 byte code, z3 5.1.0 deciding every branch; one OS process per condition",
            },
            {
                "name": "z3-direct",
                "path": "vf/z3lemmas.py",
                "serves_properties": ["C01", "C20"],
                "kind_free_text": "direct z3 bit-vector / IEEE-754 queries generated from the AST of the numeric literal conversion",
            },
        ],
        "checks": checks,
        "not_applicable": na,
        "notes": "Exit 0 held / 1 VIOLATION (replayed) / 3 harness error. Known findings and fixed defects: known_findings.json.",
    }
    with open(os.path.join(VERIF, "MANIFEST.json"), "w") as fh:
        json.dump(man, fh, indent=1)
    print(f"claimed {len(checks)} not_applicable {len(na)}")


if __name__ == "__main__":
    main()
