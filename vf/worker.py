"""Run CrossHair on one generated condition inside its own process.

usage: python -m vf.worker <gen_module.py> <function> <cpu_timeout> <path_timeout|0> <out.json>

Outcome (JSON): status in {confirmed, refuted, unknown, pre_unsat, error} plus the
counterexample call text, path count, z3 query count and solver seconds.
"""

from __future__ import annotations

import collections
import functools
import importlib.util
import json
import os
import sys
import time
import traceback


def _install_guards(stats: dict) -> None:
    # --- z3 query counter -------------------------------------------------
    import z3

    orig_check = z3.Solver.check

    def counted_check(self, *a, **k):  # type: ignore[no-untyped-def]
        t0 = time.perf_counter()
        try:
            return orig_check(self, *a, **k)
        finally:
            stats["z3_queries"] += 1
            stats["z3_seconds"] += time.perf_counter() - t0

    z3.Solver.check = counted_check  # type: ignore[method-assign]

    # --- guard 6: CrossHair bypasses functools.lru_cache ------------------
    import crosshair.core as core
    import crosshair.core_and_libs  # noqa: F401  (registers all patches)

    # CrossHair replaces `_lru_cache_wrapper.__call__` by a direct call of `__wrapped__`:
    # memoisation does not exist under CrossHair, which hides cross-call state (the
    # `date` filter).  For functions defined in /repo the real cache is kept; stdlib
    # caches stay bypassed (they make iterations non-deterministic otherwise).
    try:
        _key = functools._lru_cache_wrapper.__call__  # type: ignore[attr-defined]
        _real_call = _key

        def _lru_call(self, *a, **kw):  # type: ignore[no-untyped-def]
            if not isinstance(self, functools._lru_cache_wrapper):  # type: ignore[attr-defined]
                raise TypeError
            mod = getattr(getattr(self, "__wrapped__", None), "__module__", "") or ""
            if mod == "liquid2" or mod.startswith("liquid2."):
                stats["lru_real_calls"] += 1
                return _real_call(self, *a, **kw)
            return self.__wrapped__(*a, **kw)

        core._PATCH_REGISTRATIONS[_key] = _lru_call
        stats["lru_patch_removed"] = True
    except Exception:  # pragma: no cover
        stats["lru_patch_removed"] = False

    # --- CrossHair's Decimal shim disagrees with the real module (inf, "1.") ----
    # Observed: `Decimal("inf") + Decimal("0")` and `Decimal("1.")` raise in the shim
    # but not in C `_decimal`, giving counterexamples that do not replay.  Use the real
    # type; its constructor arguments are realized (solver-enumerated) first.
    import decimal as _decimal

    from crosshair import realize as _realize

    _real_decimal = _decimal.Decimal
    core._PATCH_REGISTRATIONS.pop(_real_decimal, None)

    def _decimal_ctor(*a, **kw):  # type: ignore[no-untyped-def]
        return _real_decimal(*[_realize(x) for x in a], **{k: _realize(v) for k, v in kw.items()})

    core._PATCH_REGISTRATIONS[_real_decimal] = _decimal_ctor
    for _k in [k for k in list(core._PATCH_REGISTRATIONS) if getattr(k, "__objclass__", None) is _decimal.Context]:
        core._PATCH_REGISTRATIONS.pop(_k, None)
    stats["decimal_shim_replaced"] = True

    # --- CrossHair's StringIO model concatenates with `+`: a str *subclass* that
    # overrides __radd__ (markupsafe.Markup escapes its left operand) garbles the buffer
    # (observed: engine-authored `<tr ...>` came back escaped).  The real C StringIO
    # stores the characters only, so coerce str subclasses to exact str first.
    import crosshair.libimpl.iolib as _iolib

    _model_write = _iolib.BackedStringIO.write

    def _write_plain(self, string):  # type: ignore[no-untyped-def]
        if type(string) is not str and isinstance(string, str):
            string = str.__str__(string)
        return _model_write(self, string)

    _iolib.BackedStringIO.write = _write_plain  # type: ignore[method-assign]
    stats["stringio_model_write_coerces_str_subclasses"] = True

    # --- CrossHair models str.join by `+` concatenation.  C-level str.join ignores
    # operator overloading of str subclasses; `+` does not: a markupsafe.Markup item
    # escapes everything joined before it (observed: unquote_plus(Markup("%3C")) came
    # back as Markup("&lt;") instead of "<", hiding an unsafe flow in C04).  Coerce
    # str-subclass items (and separator) to exact str before the model runs.
    import crosshair.libimpl.builtinslib as _bl
    from crosshair.libimpl.builtinslib import AnySymbolicStr

    _model_join = _bl._str_join

    def _plain(x):  # type: ignore[no-untyped-def]
        if type(x) is not str and isinstance(x, str) and not isinstance(x, AnySymbolicStr):
            return str.__str__(x)
        return x

    def _str_join_plain(self, itr):  # type: ignore[no-untyped-def]
        return _model_join(_plain(self), [_plain(i) for i in itr])

    if core._PATCH_REGISTRATIONS.get(str.join) is _model_join:
        core._PATCH_REGISTRATIONS[str.join] = _str_join_plain
        stats["str_join_model_coerces_str_subclasses"] = True

    # --- CrossHair's getattr()/hasattr() patches run the attribute lookup with tracing
    # suspended; a *property* that does arithmetic on symbolic ints (ForLoop.rindex =
    # length - index, reached through getattr(self, key)) then dies with CrossHairInternal.
    # Keep the name realization untraced, run the lookup itself traced.
    from crosshair.tracers import NoTracing as _NT, ResumedTracing as _RT

    _MISSING = _bl._MISSING
    _orig_getattr_patch = _bl._getattr
    _orig_hasattr_patch = _bl._hasattr

    def _getattr_traced(obj, name, default=_MISSING):  # type: ignore[no-untyped-def]
        with _NT():
            if isinstance(name, AnySymbolicStr):
                return _orig_getattr_patch(obj, name, default)
            with _RT():
                if default is _MISSING:
                    return getattr(obj, name)
                return getattr(obj, name, default)

    if core._PATCH_REGISTRATIONS.get(getattr) is _orig_getattr_patch:
        core._PATCH_REGISTRATIONS[getattr] = _getattr_traced
        stats["getattr_patch_traced"] = True

    # --- guard 3: regex sentinel -------------------------------------------
    # CrossHair's symbolic regex model disagrees with CPython on this lexer
    # (Match.lastgroup for nested named groups).  A symbolic string must never
    # reach a compiled pattern; if it does, the whole condition is void.
    import crosshair.libimpl.relib as relib
    from crosshair.libimpl.builtinslib import AnySymbolicStr

    orig_match = relib._match_pattern

    import re as _re

    liquid_patterns: dict[int, str] = {}

    def _collect() -> None:
        for mname, m in list(sys.modules.items()):
            if not (mname == "liquid2" or mname.startswith("liquid2.")) or m is None:
                continue
            for k, v in list(vars(m).items()):
                if isinstance(v, _re.Pattern):
                    liquid_patterns[id(v)] = f"{mname}.{k}"
                elif isinstance(v, type) and getattr(v, "__module__", "").startswith("liquid2"):
                    for ck, cv in list(vars(v).items()):
                        if isinstance(cv, _re.Pattern):
                            liquid_patterns[id(cv)] = f"{mname}.{k}.{ck}"
        liquid_patterns[0] = "collected"

    def sentinel(compiled_regex, orig_str, *a, **k):  # type: ignore[no-untyped-def]
        if isinstance(orig_str, AnySymbolicStr):
            if not liquid_patterns:
                _collect()
            if id(compiled_regex) in liquid_patterns and compiled_regex.groupindex:
                # nested named groups + lastgroup: the case observed to be modelled wrongly
                stats["regex_sentinel_hits"] += 1
            elif id(compiled_regex) in liquid_patterns:
                stats["regex_model_uses"] += 1
            else:
                stats["regex_model_uses_outside_liquid2"] += 1
        return orig_match(compiled_regex, orig_str, *a, **k)

    relib._match_pattern = sentinel


def main(argv: list[str]) -> int:
    gen_path, fn_name, cpu_timeout, path_timeout, out_path = argv
    cpu_timeout = float(cpu_timeout)
    path_timeout = float(path_timeout)
    stats: dict = collections.Counter()
    stats["z3_seconds"] = 0.0
    result: dict = {"fn": fn_name, "status": "error", "messages": []}
    t0 = time.time()
    try:
        _install_guards(stats)
        from crosshair.core_and_libs import analyze_function, run_checkables
        from crosshair.options import AnalysisKind, AnalysisOptionSet
        from crosshair.statespace import MessageType

        spec = importlib.util.spec_from_file_location(f"vfgen_{fn_name}", gen_path)
        assert spec and spec.loader
        mod = importlib.util.module_from_spec(spec)
        sys.modules[spec.name] = mod
        spec.loader.exec_module(mod)
        fn = getattr(mod, fn_name)

        ch_stats: collections.Counter = collections.Counter()
        kw = dict(
            analysis_kind=(AnalysisKind.PEP316,),
            per_condition_timeout=cpu_timeout,
            report_all=True,
            stats=ch_stats,
        )
        if path_timeout > 0:
            kw["per_path_timeout"] = path_timeout
        options = AnalysisOptionSet(**kw)
        checkables = analyze_function(fn, options)
        if not checkables:
            result["status"] = "error"
            result["error"] = "no checkable conditions (contract not parsed)"
        else:
            messages = run_checkables(checkables)
            states = []
            for m in messages:
                states.append(m.state.name)
                result["messages"].append(
                    {"state": m.state.name, "message": m.message, "line": m.line}
                )
            bad = [
                m
                for m in messages
                if m.state in (MessageType.POST_FAIL, MessageType.EXEC_ERR, MessageType.POST_ERR)
            ]
            if any(m.state in (MessageType.SYNTAX_ERR, MessageType.IMPORT_ERR) for m in messages):
                result["status"] = "error"
                result["error"] = "; ".join(m.message for m in messages)
            elif bad:
                result["status"] = "refuted"
                result["counterexample"] = bad[0].message
                result["ce_state"] = bad[0].state.name
            elif any(m.state == MessageType.PRE_UNSAT for m in messages):
                result["status"] = "pre_unsat"
            elif messages and all(m.state == MessageType.CONFIRMED for m in messages):
                result["status"] = "confirmed"
            else:
                result["status"] = "unknown"
            result["paths"] = int(ch_stats.get("num_paths", 0))
            result["exhausted"] = bool(ch_stats.get("exhaustion", 0))
    except BaseException as e:  # noqa: BLE001  (a crashed worker is a harness error)
        result["status"] = "error"
        result["error"] = f"{type(e).__name__}: {e}"
        result["traceback"] = traceback.format_exc()[-4000:]
    if stats.get("regex_sentinel_hits"):
        result["status"] = "error"
        result["error"] = (
            f"regex sentinel: symbolic str reached a compiled pattern "
            f"{stats['regex_sentinel_hits']} time(s); CrossHair's regex model is unsound for this lexer"
        )
    result["z3_queries"] = int(stats.get("z3_queries", 0))
    result["z3_seconds"] = round(float(stats.get("z3_seconds", 0.0)), 3)
    result["regex_model_uses"] = int(stats.get("regex_model_uses", 0))
    result["lru_patch_removed"] = bool(stats.get("lru_patch_removed"))
    result["wall_s"] = round(time.time() - t0, 3)
    result["cpu_s"] = round(time.process_time(), 3)
    with open(out_path, "w") as fh:
        json.dump(result, fh)
    return 0


if __name__ == "__main__":
    sys.exit(main(sys.argv[1:]))
