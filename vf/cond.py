"""Condition registry.

A *condition* is a plain Python function in ``harness/Cxx.py`` that

* has fully annotated parameters (these become the solver variables),
* is registered with ``@cond(pre=[...])`` - the ``pre`` expressions bound the symbolic
  domain; the generated CrossHair target gets ``pre:`` lines from them and ``post: _``
  (the function must return a true value),
* calls the real code in /repo/liquid2 on those parameters, and
* carries NO PEP-316 contract in its own docstring: CrossHair *enforces* the contracts
  of callees and silently ignores a path on which a callee's postcondition fails, so a
  contract on the harness function itself would turn every failure into "Confirmed"
  (observed with the first reachability twin).

``@cond(...)`` only records metadata; it returns the function unchanged so that
CrossHair analyses exactly the function that a replay executes natively.
"""

from __future__ import annotations

import inspect
import itertools
from dataclasses import dataclass, field
from typing import Any, Callable, Iterable, Sequence


class HarnessAbort(Exception):
    """Raised by a condition when an assumption of the harness itself (not the property) fails:
    reported as HARNESS-ERROR (exit 3), never as a violation."""


@dataclass
class Cond:
    fn: Callable[..., Any]
    name: str
    module: str
    prop: str
    pre: tuple[str, ...] = ()  # precondition expressions over the parameters (the bound)
    pattern: str = "K"  # K D S T I Z
    timeout: float = 60  # CrossHair per-condition CPU seconds, quick tier
    timeout_thorough: float | None = None
    path_timeout: float | None = None
    tiers: tuple[str, ...] = ("quick", "thorough")
    shard: dict[str, Sequence[Any]] = field(default_factory=dict)
    shard_thorough: dict[str, Sequence[Any]] | None = None
    # parameters over which a task that ran out of time is split into sub-tasks (one extra fixed value each):
    # the parent is then decided by its sub-tasks - more time for the heavy shards only
    split: dict[str, Sequence[Any]] | None = None
    consts: dict[str, Any] = field(default_factory=dict)
    consts_thorough: dict[str, Any] | None = None
    twin: bool = False  # reachability twin: must be REFUTED
    grid_only: bool = False  # translator/stub validation on a concrete corpus, native only
    grid: Callable[[], Iterable[tuple]] | None = None
    bounds: str = ""
    stubs: tuple[str, ...] = ()
    covers: str = ""  # which clause of the property this condition decides

    def shards(self, tier: str) -> list[dict[str, Any]]:
        sh = self.shard_thorough if (tier == "thorough" and self.shard_thorough is not None) else self.shard
        if not sh:
            return [{}]
        keys = list(sh)
        return [dict(zip(keys, vals)) for vals in itertools.product(*(sh[k] for k in keys))]

    def constants(self, tier: str) -> dict[str, Any]:
        if tier == "thorough" and self.consts_thorough is not None:
            return dict(self.consts_thorough)
        return dict(self.consts)

    def cpu_timeout(self, tier: str) -> float:
        if tier == "thorough" and self.timeout_thorough is not None:
            return self.timeout_thorough
        return self.timeout


_REGISTRY: dict[str, list[Cond]] = {}


def cond(**kw: Any) -> Callable[[Callable[..., Any]], Callable[..., Any]]:
    def deco(fn: Callable[..., Any]) -> Callable[..., Any]:
        mod = fn.__module__
        prop = kw.pop("prop", None) or mod.rsplit(".", 1)[-1][:3]
        c = Cond(fn=fn, name=fn.__name__, module=mod, prop=prop, **kw)
        _REGISTRY.setdefault(mod, []).append(c)
        return fn

    return deco


def conditions_of(module: Any) -> list[Cond]:
    return list(_REGISTRY.get(module.__name__, []))


def contract_lines(c: Cond) -> tuple[list[str], list[str]]:
    """Return (pre expressions, post expressions) for the generated target."""
    doc = inspect.getdoc(c.fn) or ""
    for line in doc.splitlines():
        if line.strip().startswith(("pre:", "post:", "raises:", "inv:")):
            raise ValueError(f"{c.name}: harness functions must not carry PEP-316 contracts")
    return list(c.pre), ["_"]
