"""Native (no CrossHair, no tracing) execution of harness functions.

  python -m vf.native replay <gen_module.py> <call expression>
  python -m vf.native grid   <harness module> <condition> <tier> <out.json>

`replay` decides whether a solver counterexample reproduces on the real code.
`grid` runs a condition on its fixed corner grid (model-mask guard / oracle
self-check) and records which liquid2 functions the harness actually executes.
"""

from __future__ import annotations

import importlib
import importlib.util
import json
import os
import sys
import traceback


def _load(path: str):
    spec = importlib.util.spec_from_file_location("vfgen_replay", path)
    assert spec and spec.loader
    mod = importlib.util.module_from_spec(spec)
    sys.modules[spec.name] = mod
    spec.loader.exec_module(mod)
    return mod


def replay(path: str, expr: str) -> dict:
    mod = _load(path)
    ns = dict(vars(mod))
    ns.setdefault("nan", float("nan"))
    ns.setdefault("inf", float("inf"))
    out: dict = {"expr": expr}
    from .cond import HarnessAbort

    try:
        r = eval(expr, ns)  # noqa: S307 - the expression is CrossHair's own repr of the call
        out["returned"] = repr(r)
        out["holds"] = bool(r)
    except HarnessAbort as e:
        out["returned"] = None
        out["holds"] = None
        out["harness_abort"] = str(e)
    except Exception as e:  # noqa: BLE001
        out["returned"] = None
        out["holds"] = False
        out["exception"] = f"{type(e).__name__}: {e}"
        out["traceback"] = traceback.format_exc()[-3000:]
    return out


def grid(module: str, name: str, tier: str) -> dict:
    from .cond import HarnessAbort, conditions_of

    mod = importlib.import_module(module)
    c = next(c for c in conditions_of(mod) if c.name == name)
    repo = os.path.realpath(os.environ.get("VF_REPO", "/repo")) + os.sep
    seen: set[str] = set()

    def prof(frame, event, arg):  # type: ignore[no-untyped-def]
        if event == "call":
            fn = frame.f_code.co_filename
            if fn.startswith(repo):
                seen.add(f"{fn[len(repo):]}:{frame.f_code.co_qualname}")

    points = list(c.grid()) if c.grid else []
    fails = []
    abort = None
    sys.setprofile(prof)
    try:
        for pt in points:
            try:
                ok = bool(c.fn(*pt))
                exc = None
            except HarnessAbort as e:
                abort = f"harness assumption failed at {pt!r}: {e}"
                break
            except Exception as e:  # noqa: BLE001
                ok = False
                exc = f"{type(e).__name__}: {e}"
            if not ok:
                fails.append({"args": repr(pt), "exception": exc})
    finally:
        sys.setprofile(None)
    return {
        **({"error": abort} if abort else {}),
        "points": len(points),
        "fails": fails,
        "functions": sorted(seen),
        "sample": repr(points[0]) if points else None,
    }


def main(argv: list[str]) -> int:
    if argv[0] == "replay":
        print(json.dumps(replay(argv[1], argv[2])))
        return 0
    if argv[0] == "grid":
        res = grid(argv[1], argv[2], argv[3])
        with open(argv[4], "w") as fh:
            json.dump(res, fh)
        return 0
    raise SystemExit("usage")


if __name__ == "__main__":
    sys.exit(main(sys.argv[1:]))
