"""Driver: decide one property with the solver, replay, write evidence.

  ./check C06 [--tier quick|thorough] [--only <condition substring>] [--jobs N]
  ./check --replay replays/<file>.py

Exit 0: held on everything explored (inconclusive conditions are listed, never
        counted as held)
Exit 1: at least one *replayed* counterexample outside the known findings
        (prints ``VIOLATION property=<id> replay=<path>``)
Exit 3: harness error (vacuous twin, counterexample that does not reproduce,
        regex sentinel, crashed worker)
"""

from __future__ import annotations

import argparse
import ast
import concurrent.futures as cf
import hashlib
import importlib
import inspect
import itertools
import json
import os
import shutil
import subprocess
import sys
import tempfile
import time
from typing import Any

VERIF = os.path.dirname(os.path.dirname(os.path.abspath(__file__)))
REPO = os.environ.get("VF_REPO", "/repo")
PY = os.path.join(VERIF, ".venv", "bin", "python")

sys.path.insert(0, VERIF)
sys.path.insert(0, REPO)

from vf import gen  # noqa: E402
from vf.cond import Cond, conditions_of  # noqa: E402

LEVEL = "model_checking"


def _env() -> dict[str, str]:
    e = dict(os.environ)
    e["PYTHONPATH"] = os.pathsep.join([VERIF, REPO])
    e["PYTHONDONTWRITEBYTECODE"] = "1"
    e["PYTHONHASHSEED"] = "0"
    e["VF_REPO"] = REPO
    return e


def extract_call(message: str) -> str | None:
    """Pull ``f(args)`` out of CrossHair's "... when calling f(args) (which returns X)"."""
    key = "when calling "
    i = message.find(key)
    if i < 0:
        return None
    text = message[i + len(key) :]
    best = None
    for j, ch in enumerate(text):
        if ch == ")":
            cand = text[: j + 1]
            try:
                node = ast.parse(cand, mode="eval")
            except SyntaxError:
                continue
            if isinstance(node.body, ast.Call):
                best = cand
                break
    return best


class Task:
    def __init__(self, c: Cond, shard: dict[str, Any], mode: str, extra_pre: list[str], tier: str, finding: dict | None = None):
        self.c = c
        self.shard = shard
        self.mode = mode
        self.extra_pre = extra_pre
        self.tier = tier
        self.finding = finding
        self.result: dict = {}
        self.replay: dict | None = None
        self.replay_path: str | None = None
        self.fn_name = ""
        self.gen_path = ""
        self.source = ""

    @property
    def label(self) -> str:
        return self.fn_name


def run_task(t: Task, scratch: str) -> Task:
    consts = t.c.constants(t.tier)
    t.fn_name, t.source = gen.generate(
        t.c, t.shard, consts, mode=t.mode, extra_pre=t.extra_pre, verif_dir=VERIF, repo_dir=REPO
    )
    t.gen_path = gen.write_module(scratch, t.fn_name, t.source)
    out = os.path.join(scratch, f"{t.fn_name}.json")
    cpu = t.c.cpu_timeout(t.tier)
    cmd = [PY, "-m", "vf.worker", t.gen_path, t.fn_name, str(cpu), str(t.c.path_timeout or 0), out]
    t0 = time.time()
    try:
        wenv = _env()
        wenv["VF_WORKER"] = "1"
        p = subprocess.run(cmd, cwd=VERIF, env=wenv, capture_output=True, text=True, timeout=cpu * 1.6 + 90)
        if os.path.exists(out):
            with open(out) as fh:
                t.result = json.load(fh)
        else:
            t.result = {"status": "error", "error": f"worker exit {p.returncode}: {p.stderr[-1500:]}"}
    except subprocess.TimeoutExpired:
        t.result = {"status": "unknown", "error": "hard wall timeout", "wall_s": round(time.time() - t0, 1)}
    if t.result.get("status") == "refuted":
        call = extract_call(t.result.get("counterexample", ""))
        t.result["call"] = call
        if call is None:
            t.replay = {"holds": None, "error": "no call in counterexample message: " + str(t.result.get("counterexample"))[:300]}
        else:
            try:
                p = subprocess.run(
                    [PY, "-m", "vf.native", "replay", t.gen_path, call],
                    cwd=VERIF, env=_env(), capture_output=True, text=True, timeout=300,
                )
                t.replay = json.loads(p.stdout.strip().splitlines()[-1])
            except Exception as e:  # noqa: BLE001
                t.replay = {"holds": None, "error": f"replay failed: {type(e).__name__}: {e}"}
    return t


def run_grid(c: Cond, tier: str, scratch: str) -> dict:
    out = os.path.join(scratch, f"grid_{c.name}.json")
    try:
        p = subprocess.run(
            [PY, "-m", "vf.native", "grid", c.module, c.name, tier, out],
            cwd=VERIF, env=_env(), capture_output=True, text=True, timeout=900,
        )
        if os.path.exists(out):
            with open(out) as fh:
                return json.load(fh)
        return {"error": f"grid exit {p.returncode}: {p.stderr[-1500:]}", "points": 0, "fails": [], "functions": []}
    except subprocess.TimeoutExpired:
        return {"error": "grid timeout", "points": 0, "fails": [], "functions": []}


def write_replay(t: Task, prop: str, kind: str, call: str) -> str:
    os.makedirs(os.path.join(VERIF, "replays"), exist_ok=True)
    h = hashlib.sha1((t.fn_name + call).encode()).hexdigest()[:10]
    path = os.path.join(VERIF, "replays", f"{prop}_{t.fn_name}_{h}.py")
    body = t.source + f'''

if __name__ == "__main__":
    # {kind}: the solver's counterexample, executed natively against {REPO}
    nan = float("nan"); inf = float("inf")
    try:
        _r = {call}
    except Exception as _e:  # an exception escaping a harness function is a failed condition
        import traceback; traceback.print_exc()
        _r = False
    print("condition {t.fn_name} returned", _r)
    sys.exit(0 if _r else 1)
'''
    with open(path, "w") as fh:
        fh.write(body)
    return path


def region_holds(region: str, c: Cond, args: tuple) -> bool:
    names = list(inspect.signature(c.fn).parameters)
    ns = dict(vars(importlib.import_module(c.module)))
    ns.update(dict(zip(names, args)))
    try:
        return bool(eval(region, ns))  # noqa: S307
    except Exception:  # noqa: BLE001
        return False


def load_known() -> dict:
    p = os.path.join(VERIF, "known_findings.json")
    if not os.path.exists(p):
        return {"findings": [], "fixed": []}
    with open(p) as fh:
        return json.load(fh)


def main(argv: list[str] | None = None) -> int:
    ap = argparse.ArgumentParser()
    ap.add_argument("prop", nargs="?")
    ap.add_argument("--tier", default=os.environ.get("VERIF_TIER", "quick"))
    ap.add_argument("--only", default=None)
    ap.add_argument("--jobs", type=int, default=int(os.environ.get("VF_JOBS", os.cpu_count() or 4)))
    ap.add_argument("--replay", default=None)
    ap.add_argument("--no-evidence", action="store_true")
    ap.add_argument("--timeout-scale", type=float, default=float(os.environ.get("VF_TIMEOUT_SCALE", "1")))
    a = ap.parse_args(argv)

    if a.replay:
        return subprocess.run([PY, a.replay], cwd=VERIF, env=_env()).returncode
    if not a.prop:
        ap.error("property id required")
    prop = a.prop
    tier = a.tier if a.tier in ("quick", "thorough") else "quick"
    seed = int(os.environ.get("VERIF_SEED", "0") or 0)
    os.environ["VERIF_SEED"] = str(seed)
    os.environ["VERIF_TIER"] = tier
    t_start = time.time()

    # the repository's current HEAD/dirty state, for the record
    try:
        head = subprocess.run(["git", "-C", REPO, "rev-parse", "--short", "HEAD"], capture_output=True, text=True).stdout.strip()
        dirty = bool(subprocess.run(["git", "-C", REPO, "status", "--porcelain", "--untracked-files=no"], capture_output=True, text=True).stdout.strip())
    except Exception:  # noqa: BLE001
        head, dirty = "?", False

    try:
        mod = importlib.import_module(f"harness.{prop}")
    except Exception as e:  # noqa: BLE001
        import traceback

        traceback.print_exc()
        print(f"HARNESS-ERROR property={prop} harness module failed to import against the current tree: {type(e).__name__}: {e}")
        return 3
    conds = [c for c in conditions_of(mod) if tier in c.tiers]
    if a.only:
        conds = [c for c in conds if a.only in c.name or c.name in a.only]
    if a.timeout_scale != 1:
        for c in conds:
            c.timeout *= a.timeout_scale
            if c.timeout_thorough:
                c.timeout_thorough *= a.timeout_scale
    known = load_known()
    findings = [f for f in known.get("findings", []) if f["property"] == prop]

    tasks: list[Task] = []
    for c in conds:
        if c.grid_only:
            continue
        kf = [f for f in findings if f["condition"] == c.name]
        not_regions = [f"not ({f['region']})" for f in kf]
        for sh in c.shards(tier):
            whole = [
                f for f in kf
                if f.get("whole_shard") and f.get("shard") is not None and all(sh.get(k) == v for k, v in f["shard"].items())
            ]
            if whole and not c.twin:
                continue  # this shard *is* a recorded finding: decided by the kf pass only
            tasks.append(Task(c, sh, "main", not_regions if not c.twin else [], tier))
        if not c.twin:
            for i, f in enumerate(kf):
                # decide the recorded region on its own: it must still be refuted
                shards = c.shards(tier)
                if f.get("shard") is not None:
                    shards = [s for s in shards if all(s.get(k) == v for k, v in f["shard"].items())]
                for sh in shards:
                    tasks.append(Task(c, sh, f"kf{i}", [f["region"]], tier, finding=f))

    if a.only:
        tasks = [t for t in tasks if a.only in gen.wrapper_name(t.c, t.shard, t.mode)]

    scratch = tempfile.mkdtemp(prefix="vf_")
    grids: dict[str, dict] = {}
    split_parents: list[str] = []
    try:
        with cf.ThreadPoolExecutor(max_workers=max(1, a.jobs)) as ex:
            # longest first
            order = sorted(tasks, key=lambda t: -t.c.cpu_timeout(tier))
            futs = [ex.submit(run_task, t, scratch) for t in order]
            gfuts = {c.name: ex.submit(run_grid, c, tier, scratch) for c in conds if c.grid}
            for f in futs:
                f.result()
            # second wave (thorough tier only): a main-pass task that ran out of time is split on the
            # condition's `split` parameters; its sub-tasks (same budget each) replace it
            sub: list[Task] = []
            for t in list(tasks):
                if tier == "thorough" and t.mode == "main" and not t.c.twin and t.c.split and t.result.get("status") == "unknown":
                    keys = [k for k in t.c.split if k not in t.shard]
                    if not keys:
                        continue
                    for combo in itertools.product(*[t.c.split[k] for k in keys]):
                        sh = dict(t.shard)
                        sh.update(dict(zip(keys, combo)))
                        sub.append(Task(t.c, sh, t.mode, t.extra_pre, tier))
                    tasks.remove(t)
                    split_parents.append(gen.wrapper_name(t.c, t.shard, t.mode))
            for f in [ex.submit(run_task, t, scratch) for t in sub]:
                f.result()
            tasks.extend(sub)
            for n, f in gfuts.items():
                grids[n] = f.result()

        violations: list[str] = []
        known_lines: list[str] = []
        harness_errors: list[str] = []
        inconclusive: list[str] = []
        records = []
        kf_status: dict[int, list[str]] = {}
        for t in tasks:
            r = t.result
            st = r.get("status")
            rec = {
                "condition": t.fn_name,
                "pattern": t.c.pattern,
                "covers": t.c.covers,
                "bounds": t.c.bounds,
                "pass": t.mode,
                "status": st,
                "paths": r.get("paths"),
                "exhausted": r.get("exhausted"),
                "z3_queries": r.get("z3_queries"),
                "z3_seconds": r.get("z3_seconds"),
                "cpu_s": r.get("cpu_s"),
                "wall_s": r.get("wall_s"),
                "cpu_budget_s": t.c.cpu_timeout(tier),
            }
            if r.get("regex_model_uses"):
                rec["regex_model_uses"] = r["regex_model_uses"]
            if st == "refuted":
                rec["counterexample"] = r.get("call")
                rec["replay"] = t.replay
            if st == "error":
                rec["error"] = r.get("error")
            records.append(rec)

            if t.c.twin:
                if st == "confirmed":
                    harness_errors.append(f"reachability twin {t.fn_name} was CONFIRMED: harness is vacuous")
                elif st != "refuted":
                    harness_errors.append(f"reachability twin {t.fn_name} not refuted ({st}): reachability not shown")
                continue
            if t.finding is not None:
                idx = findings.index(t.finding)
                if st == "refuted" and t.replay and t.replay.get("holds") is False:
                    kf_status.setdefault(idx, []).append("present")
                elif st == "confirmed":
                    kf_status.setdefault(idx, []).append("absent")
                else:
                    kf_status.setdefault(idx, []).append(f"undecided({st})")
                continue
            if st == "confirmed":
                pass
            elif st == "refuted":
                if t.replay and t.replay.get("holds") is False:
                    path = write_replay(t, prop, "VIOLATION", r["call"])
                    t.replay_path = path
                    violations.append(path)
                    rec["replay_file"] = os.path.relpath(path, VERIF)
                else:
                    harness_errors.append(
                        f"{t.fn_name}: counterexample {r.get('call')!r} does not reproduce natively ({t.replay})"
                    )
            elif st in ("unknown",):
                inconclusive.append(t.fn_name)
            elif st == "pre_unsat":
                harness_errors.append(f"{t.fn_name}: precondition unsatisfiable / no path passed the precondition")
            else:
                harness_errors.append(f"{t.fn_name}: {r.get('error')}")

        # native grid: model-mask guard + oracle self check
        functions: set[str] = set()
        grid_points = 0
        for c in conds:
            g = grids.get(c.name)
            if not g:
                continue
            functions.update(g.get("functions", []))
            grid_points += g.get("points", 0)
            if g.get("error"):
                harness_errors.append(f"grid {c.name}: {g['error']}")
            reported = 0
            for fl in g.get("fails", []):
                if c.twin:
                    continue
                if reported >= 3:
                    break
                try:
                    args = eval(fl["args"], {"nan": float("nan"), "inf": float("inf")})  # noqa: S307
                except Exception:  # noqa: BLE001
                    args = None
                in_known = False
                if args is not None:
                    for f in findings:
                        if f["condition"] == c.name and region_holds(f["region"], c, args):
                            in_known = True
                if in_known:
                    continue
                # reproduced natively by construction
                t = Task(c, {}, "grid", [], tier)
                t.fn_name, t.source = gen.generate(c, {}, {}, mode="main", verif_dir=VERIF, repo_dir=REPO)
                t.fn_name = c.name
                call = f"_H.{c.name}(*{fl['args']})"
                path = write_replay(t, prop, "VIOLATION (native grid)", call)
                violations.append(path)
                reported += 1
                records.append({"condition": c.name, "pass": "native-grid", "status": "refuted", "counterexample": fl})

        for idx, f in enumerate(findings):
            sts = kf_status.get(idx, [])
            if "present" in sts:
                known_lines.append(f"KNOWN-FINDING: property={prop} {f['what']} [{f['condition']}: {f['region']}]")
            elif sts and all(s == "absent" for s in sts):
                records.append({"condition": f["condition"], "pass": "known-finding", "status": "stale", "note": "recorded finding no longer reproduces; entry is stale"})
            elif sts:
                inconclusive.append(f"known-finding[{idx}] {f['condition']}: {sts}")

        for line in known_lines:
            print(line)
        for p in violations:
            print(f"VIOLATION property={prop} replay={os.path.relpath(p, VERIF)}")
        for e in harness_errors:
            print(f"HARNESS-ERROR property={prop} {e}")
        for n in inconclusive:
            print(f"INCONCLUSIVE property={prop} {n}")

        main_recs = [r for r in records if r.get("pass") == "main" or str(r.get("pass", "")).startswith("kf")]
        n_conf = sum(1 for r in records if r.get("status") == "confirmed")
        wall = time.time() - t_start
        print(
            f"{prop} [{tier}] conditions={len(main_recs)} confirmed={n_conf} "
            f"violations={len(violations)} known={len(known_lines)} inconclusive={len(inconclusive)} "
            f"harness_errors={len(harness_errors)} wall={wall:.0f}s"
        )

        if not a.no_evidence and not a.only:
            paths_total = sum(int(r.get("paths") or 0) for r in records)
            q_total = sum(int(r.get("z3_queries") or 0) for r in records)
            z3s = sum(float(r.get("z3_seconds") or 0) for r in records)
            samples = []
            for r in records[:60]:
                samples.append({k: r.get(k) for k in ("condition", "pass", "status", "paths", "z3_queries", "bounds", "counterexample") if r.get(k) is not None})
            stubs = sorted({s for c in conds for s in c.stubs})
            ev = {
                "property_id": prop,
                "tier": tier,
                "seed": seed,
                "level": LEVEL,
                "coverage": {
                    "states": max(paths_total, 1),
                    "transitions": max(q_total, 1),
                    "traces_validated_against_impl": grid_points + sum(1 for r in records if r.get("replay")),
                    "evaluations": max(paths_total, 1),
                    "distinct_nontrivial": max(n_conf, 0),
                    "rule": (
                        "one evaluation = one symbolic execution path of a harness condition over the real liquid2 code "
                        "(each path stands for every input satisfying its path condition); states = paths explored, "
                        "transitions = z3 check() calls that decided branch feasibility; distinct_nontrivial = conditions "
                        "whose path tree was exhausted with the postcondition holding on every leaf (CrossHair CONFIRMED)"
                    ),
                    "samples": samples,
                    "conditions": records,
                    "functions_encoded": sorted(functions),
                    "solver": "z3 (via CrossHair 0.0.110 symbolic execution of the Python byte code of /repo/liquid2)",
                    "queries_discharged": q_total,
                    "solver_seconds": round(z3s, 2),
                    "confirmed": n_conf,
                    "inconclusive": inconclusive,
                    "split_after_timeout": split_parents,
                    "harness_errors": harness_errors,
                    "known_findings_reported": known_lines,
                    "native_grid_points": grid_points,
                    "repo_head": head,
                    "repo_dirty": dirty,
                    "exhaustive": False,
                    "explanation": getattr(mod, "EXPLANATION", ""),
                    "outside_claim": getattr(mod, "OUTSIDE", []),
                },
                "assumptions": [
                    "CPython 3.12 semantics as modelled by CrossHair 0.0.110 (int/str/list/dict/StringIO/pathlib proxies); z3 5.1.0",
                    "bounds are those in each condition's `bounds`/pre lines; nothing is claimed outside them",
                    "functools.lru_cache bypass patch of CrossHair removed in every worker; regex sentinel active",
                ]
                + [f"stub: {s}" for s in stubs],
                "wall_s": round(wall, 2),
                "violations": len(violations),
            }
            os.makedirs(os.path.join(VERIF, "evidence"), exist_ok=True)
            with open(os.path.join(VERIF, "evidence", f"{prop}.json"), "w") as fh:
                json.dump(ev, fh, indent=1, default=str)

        if violations:
            return 1
        if harness_errors:
            return 3
        return 0
    finally:
        shutil.rmtree(scratch, ignore_errors=True)


if __name__ == "__main__":
    sys.exit(main())
